"""C14 — memory budgets: estimates suffice, static contexts never grow, decoder window cap.
Static clauses: one sizing routine (T10); estimate terms == reservation terms as multisets
(T9, over the AST of the estimate functions and of the reset path); both match-finder
layouts are probed by the public estimates (T9); static contexts cannot reach an allocator
(T3); bump-allocator bound checks (T8); decoder window cap (T3); sizeof covers owned fields
(T13-like).  Not decided: numeric sufficiency of the estimate for every parameter vector."""
from collections import Counter

from ..facts import extract, Broken
from ..ir import Program, walk, is_call, strip_casts, const_val
from ..report import Result
from ..rules import guards, witness
from ..rules.guards import Want, cond_edges
from ..rules.errors import _parents

VOCAB = {"f:hashLog", "f:chainLog", "f:bucketSizeLog", "f:minMatch", "m:ZSTD_HASHLOG3_MAX", "m:MaxLL", "m:MaxML", "m:MaxOff", "m:Litbits",
         "m:ZSTD_OPT_SIZE", "m:WILDCOPY_OVERLENGTH", "m:TMP_WORKSPACE_SIZE", "c:ZSTD_maxNbSeq", "c:ZSTD_ldm_getMaxNbSeq", "c:ZSTD_sequenceBound",
         "c:ZSTD_allocateChainTable"}
EST = {"ZSTD_cwksp_alloc_size": "plain", "ZSTD_cwksp_aligned64_alloc_size": "a64"}
RES = {"ZSTD_cwksp_reserve_object": "plain", "ZSTD_cwksp_reserve_buffer": "plain", "ZSTD_cwksp_reserve_aligned64": "a64",
       "ZSTD_cwksp_reserve_aligned_init_once": "a64", "ZSTD_cwksp_reserve_table": "table"}


def core(f, e):
    full = f.anchors(e, depth=3)
    direct = f.anchors(e, 0)
    c = {a for a in full if a in VOCAB}
    # element size: sizeof(...) constants appear directly in the size expression
    for x in walk(f.resolve_x(e)) if e is not None else ():
        if x.get("k") == "sizeof" and "v" in x:
            c.add("elt:%d" % x["v"])
    # size expressions held in single-definition locals
    e2 = strip_casts(e)
    if e2 is not None and e2.get("k") == "ref" and e2.get("rk") in ("l", "sl"):
        d = f.single_def(e2["n"])
        if d is not None:
            for x in walk(d):
                if x.get("k") == "sizeof" and "v" in x:
                    c.add("elt:%d" % x["v"])
    return frozenset(c)


def multiplicity(f, root, call):
    par = _parents(root)
    p = par.get(id(call))
    if p is not None and p.get("k") == "bin" and p["op"] == "*":
        o = p["lhs"] if p["rhs"] is call else p["rhs"]
        return const_val(o) or 1
    return 1


def term_agreement(prog, res):
    R = "T9.estimate-vs-reservation"
    est = Counter()
    where = {}
    for fn in ("ZSTD_estimateCCtxSize_usingCCtxParams_internal", "ZSTD_sizeof_matchState", "ZSTD_ldm_getTableSize"):
        f = prog.fn(fn)
        for b, i, r in f.roots():
            for x in walk(r):
                if x.get("k") == "call" and x.get("c") in EST:
                    k = (EST[x["c"]], core(f, x["a"][0]))
                    est[k] += multiplicity(f, r, x)
                    where[k] = "%s:%s" % (f.file, x.get("l"))
    # bare table terms: tableSpace = chainSize*4 + hSize*4 + h3Size*4
    sm = prog.fn("ZSTD_sizeof_matchState")
    ts = [d for n, ds in sm.local_defs().items() if n.startswith("tableSpace") for d in ds if d is not None]
    if not ts:
        raise Broken("ZSTD_sizeof_matchState: tableSpace not found")
    stack = [strip_casts(ts[0])]
    while stack:
        y = strip_casts(stack.pop())
        if y.get("k") == "bin" and y["op"] == "+":
            stack += [y["lhs"], y["rhs"]]
        else:
            k = ("table", core(sm, y))
            est[k] += 1
            where[k] = sm.loc
    resv = Counter()
    groups = {}
    for fn in ("ZSTD_resetCCtx_internal", "ZSTD_reset_matchState"):
        f = prog.fn(fn)
        for b, i, r in f.roots():
            for x in walk(r):
                if x.get("k") == "call" and x.get("c") in RES:
                    k = (RES[x["c"]], core(f, x["a"][1]))
                    groups.setdefault((fn, k), []).append((f, (b, i), x))
    for (fn, k), members in groups.items():
        # reservations in mutually exclusive branches (neither reaches the other) count once
        f = members[0][0]
        chains = 0
        counted = []
        for m in members:
            if not any(m[1] in f.flow([(c[1][0], c[1][1] + 1)]) or c[1] in f.flow([(m[1][0], m[1][1] + 1)]) for c in counted):
                if counted:
                    continue
            counted.append(m)
        # count members that lie on a common path
        n = 1
        for a in members:
            chain = 1 + sum(1 for b2 in members if b2 is not a and b2[1] in f.flow([(a[1][0], a[1][1] + 1)]))
            n = max(n, chain)
        resv[k] += n
        where.setdefault(k, "%s:%s" % (f.file, members[0][2].get("l")))
    # frozen, explained differences between the two sides
    FROZEN = [
        (("plain", frozenset({"elt:%d" % prog.record("ZSTD_CCtx_s")["size"]})), "est",
         "the static context object itself: reserved by ZSTD_initStaticCCtx, not by the reset path"),
        (("plain", frozenset({"f:hashLog", "elt:8"})), "est", "LDM hash table: estimated with plain alloc_size ..."),
        (("a64", frozenset({"f:hashLog", "elt:8"})), "res", "... but reserved 64-byte aligned; harmless because the table size is a multiple of 64 (witness below)"),
    ]
    for k, side, why in FROZEN:
        src = est if side == "est" else resv
        if src.get(k):
            src[k] -= 1
            if src[k] == 0:
                del src[k]
            res.ok(R, "frozen:%s:%s" % (k[0], ",".join(sorted(k[1]))), where.get(k, ""), why)
        else:
            res.bad(R, "frozen:%s:%s" % (k[0], ",".join(sorted(k[1]))), where.get(k, ""), "frozen difference no longer present (%s): update the table" % why)
    for k in sorted(set(est) | set(resv), key=str):
        a, b = est.get(k, 0), resv.get(k, 0)
        res.check(a == b, R, "%s:%s" % (k[0], ",".join(sorted(k[1])) or "caller-sized-buffer"), where.get(k, ""),
                  "estimated x%d, reserved x%d" % (a, b),
                  "workspace term {%s, %s}: the estimate counts it %d time(s) but the reset path reserves it %d time(s): a context sized by "
                  "the estimate would be too small / the estimate wasteful" % (k[0], ",".join(sorted(k[1])) or "caller-sized buffer", a, b))
    res.need(R, 18)
    witness.run_witnesses(res, "T9.estimate-vs-reservation.witness", ["common/zstd_internal.h", "compress/zstd_compress_internal.h"], [
        ("ldm-table-multiple-of-64", "((1u << ZSTD_LDM_HASHLOG_MIN) * sizeof(ldmEntry_t)) % 64 == 0", "LDM hash table size is a multiple of 64 for every accepted hashLog"),
    ], prelude="#include \"compress/zstd_ldm.h\"\n")


def one_sizing_routine(prog, res):
    R = "T10.one-sizing-routine"
    core_fn = "ZSTD_estimateCCtxSize_usingCCtxParams_internal"
    def reaches(name, target, depth=4):
        seen, todo = set(), [name]
        while todo and depth >= 0:
            nxt = []
            for n in todo:
                if n in seen:
                    continue
                seen.add(n)
                for g in prog.functions.get(n, []):
                    if target in g.callees():
                        return True
                    nxt += list(g.callees())
            todo = nxt
            depth -= 1
        return False
    for name in ("ZSTD_resetCCtx_internal", "ZSTD_estimateCCtxSize", "ZSTD_estimateCCtxSize_usingCParams", "ZSTD_estimateCCtxSize_usingCCtxParams",
                 "ZSTD_estimateCStreamSize", "ZSTD_estimateCStreamSize_usingCParams", "ZSTD_estimateCStreamSize_usingCCtxParams"):
        prog.fn(name)
        res.check(reaches(name, core_fn), R, name, prog.fn(name).loc, "sized by " + core_fn, "%s no longer reaches the shared sizing routine" % name)
    for name in ("ZSTD_estimateCDictSize_advanced", "ZSTD_createCDict_advanced_internal", "ZSTD_initStaticCDict", core_fn):
        res.check(reaches(name, "ZSTD_sizeof_matchState", 1), R, name + ":matchState", prog.fn(name).loc, "match state sized by ZSTD_sizeof_matchState",
                  "%s sizes the match state differently" % name)
    # LDM parameters are resolved (ZSTD_ldm_adjustParameters) before they size anything: inside the sizing
    # routine for the public estimates (which receive the requested, possibly all-zero, parameters) and
    # before the sizing call in the reset path
    f = prog.fn(core_fn)
    for callee in ("ZSTD_ldm_getTableSize", "ZSTD_ldm_getMaxNbSeq"):
        calls = [c for b, i, c in f.calls(callee)]
        ok = bool(calls)
        for c in calls:
            srcs = {a[2:] for a in f.anchors(c["a"][0], depth=3) if a.startswith("c:")}
            ok = ok and any(prog.has_fn(sname) and ("ZSTD_ldm_adjustParameters" in prog.fn(sname).callees()) for sname in srcs)
        res.check(ok, R, "%s:%s-uses-adjusted-params" % (core_fn, callee), f.loc, "sized from LDM parameters that went through ZSTD_ldm_adjustParameters",
                  "%s is fed the requested LDM parameters unadjusted (hashLog/minMatchLength may be 0: wrong table size, division by zero)" % callee)
    f = prog.fn("ZSTD_resetCCtx_internal")
    adj = f.call_roots("ZSTD_ldm_adjustParameters")
    siz = f.call_roots(core_fn)
    noldm = cond_edges(f, lambda c: c.get("k") == "bin" and c["op"] == "==" and "enableLdm" in {y["f"] for y in walk(c) if y.get("k") == "mem"}, "false")
    res.check(bool(adj) and bool(siz) and f.must_pass(via_roots=adj, via_edges=noldm, targets=siz), R, "ZSTD_resetCCtx_internal:ldm-adjusted-first", f.loc,
              "ZSTD_ldm_adjustParameters precedes the sizing call when LDM is enabled", "workspace sized with unadjusted LDM parameters")
    # sibling agreement: the one-shot and the streaming estimate hand the shared routine the same arguments except for the two
    # buffer sizes (positions 4 and 5): same expression shape and same anchors, with the estimate's own locals expanded
    a = prog.fn("ZSTD_estimateCCtxSize_usingCCtxParams")
    b_ = prog.fn("ZSTD_estimateCStreamSize_usingCCtxParams")
    ca = [c for _, _, c in a.calls(core_fn)]
    cb = [c for _, _, c in b_.calls(core_fn)]
    if len(ca) == 1 and len(cb) == 1 and len(ca[0]["a"]) == len(cb[0]["a"]):
        for k in range(len(ca[0]["a"])):
            if k in (4, 5):
                continue
            sa = (a.shape(ca[0]["a"][k], depth=3), frozenset(x for x in a.anchors(ca[0]["a"][k], depth=3) if x[:2] in ("f:", "c:", "p:", "k:", "e:")))
            sb = (b_.shape(cb[0]["a"][k], depth=3), frozenset(x for x in b_.anchors(cb[0]["a"][k], depth=3) if x[:2] in ("f:", "c:", "p:", "k:", "e:")))
            res.check(sa == sb, R, "estimate-siblings:argument-%d" % k, b_.loc, "one-shot and streaming estimate pass the same value",
                      "ZSTD_estimateCStreamSize_usingCCtxParams and ZSTD_estimateCCtxSize_usingCCtxParams hand the sizing routine different values for argument %d "
                      "(%s vs %s): the two estimates describe different contexts for the same parameters" % (k, sorted(sb[1] - sa[1]), sorted(sa[1] - sb[1])))
    else:
        res.bad(R, "estimate-siblings", b_.loc, "the two estimates no longer make one call each to the shared routine")
    res.need(R, 18)


def estimate_probes(prog, res):
    """the level/cParams based estimates must cover both match-finder layouts."""
    R = "T9.estimate-probes-both-layouts"
    for name, callee in (("ZSTD_estimateCCtxSize_usingCParams", "ZSTD_estimateCCtxSize_usingCCtxParams"),
                         ("ZSTD_estimateCStreamSize_usingCParams", "ZSTD_estimateCStreamSize_usingCCtxParams")):
        f = prog.fn(name)
        vals = []
        for b, i, x in f.events(lambda y: y.get("k") == "asg" and strip_casts(y["lhs"]).get("f") == "useRowMatchFinder"):
            r = strip_casts(x["rhs"])
            vals.append((r.get("n"), (b, i)))
        names = sorted(v for v, _ in vals)
        calls = f.call_roots(callee)
        ok = names == ["ZSTD_ps_disable", "ZSTD_ps_enable"] and len(calls) >= 3
        if ok:
            # each assignment is followed by its own estimate call before the next assignment
            for v, pos in vals:
                nxt = f.flow([(pos[0], pos[1] + 1)])
                ok = ok and any(c in nxt for c in calls)
        mx = any("MAX" in y.get("m", []) for b, i, r in f.returns() for y in walk(r))
        res.check(ok and mx, R, name, f.loc, "estimates with the row match finder disabled and enabled, returns the MAX",
                  "the estimate no longer probes both match-finder layouts (values assigned: %s): a context using the un-probed layout "
                  "(chain table vs tag table) can need more than the estimate" % names)


def static_never_grows(prog, res):
    R = "T3.static-never-allocates"
    f = prog.fn("ZSTD_resetCCtx_internal")
    cr = f.call_roots("ZSTD_cwksp_create")
    guards.require(f, res, R, "ZSTD_resetCCtx_internal:cwksp_create", Want("memory_allocation", "nonzero", {"f:staticSize"}), cr,
                   why="(a static context would call the allocator)")
    g = prog.fn("ZSTD_CCtx_loadDictionary_advanced")
    al = g.call_roots(("ZSTD_customMalloc", "ZSTD_createCDict_advanced", "ZSTD_createCDict_advanced2"))
    guards.require(g, res, R, "ZSTD_CCtx_loadDictionary_advanced", Want("memory_allocation", "nonzero", {"f:staticSize"}), al)
    # by reference the dictionary is still digested into a heap CDict at the first frame (ZSTD_initLocalDict): a static context
    # may not even record one - every write of localDict.dict in the loader is behind the static test
    recs = g.find_roots(lambda x: x.get("k") == "asg" and strip_casts(x["lhs"]).get("f") == "dict" and any(y.get("f") == "localDict" for y in walk(x["lhs"])))
    tested = [(bid, s_) for bid, cond, t, fl in g.branches() if any(y.get("k") == "mem" and y.get("f") == "staticSize" for y in g.walk_resolved(g.resolve_x(cond))) for s_ in (t, fl)]
    res.check(len(recs) >= 2 and bool(tested) and all(g.must_pass(via_edges=tested, targets=[r_]) for r_ in recs), R,
              "ZSTD_CCtx_loadDictionary_advanced:by-reference-too", g.loc, "every recording of a dictionary (by copy and by reference) lies behind a test of staticSize",
              "a static CCtx can record a dictionary by reference without staticSize ever being tested: ZSTD_initLocalDict then allocates its CDict on the heap at the first frame")
    # multithreading on a static context: both parameter setters refuse it
    for sname in ("ZSTD_CCtx_setParameter", "ZSTD_CCtx_setParametersUsingCCtxParams"):
        sf = prog.fn(sname)
        gs_ = [x for x in guards.guard_sites(sf) if "parameter_unsupported" in x.codes and "f:staticSize" in (x.L | x.R)]
        byedge = guards.truthy_edges(sf, lambda c: c.get("k") == "mem" and c.get("f") == "staticSize", truth=True)
        res.check(bool(gs_) or bool(byedge), R, sname + ":nbWorkers-needs-heap", sf.loc, "refuses worker threads on a static context",
                  "%s accepts nbWorkers on a static CCtx: the next frame creates a multithreading context and threads on the heap that can never be released" % sname)
    # the decoder side: every function of zstd_decompress.c that can reach an allocator through the context's customMem is cut off
    # for static contexts (a static DCtx has no allocator at all: customMem is never written by ZSTD_initStaticDCtx)
    gd = prog.fn("ZSTD_DCtx_loadDictionary_advanced")
    ald = gd.call_roots(("ZSTD_createDDict_advanced", "ZSTD_customMalloc", "ZSTD_customCalloc"))
    # the test is one conjunct of `staticSize && dict && dictSize` (the other two are re-tested before the allocation, which a
    # path-insensitive cut cannot correlate): the static test is evaluated on every path to the allocation, and its true edge can
    # reach a memory_allocation return without passing the allocation
    from ..ir import err_name as _en
    stt = guards.truthy_edges(gd, lambda c: c.get("k") == "mem" and c.get("f") == "staticSize", truth=True)
    stf = guards.truthy_edges(gd, lambda c: c.get("k") == "mem" and c.get("f") == "staticSize", truth=False)
    fails = [(b, i) for b, i, r in gd.returns() if any(y.get("err") and _en(y) == "memory_allocation" for y in gd.walk_resolved(r))]
    ok = bool(stt) and bool(ald) and bool(fails) and gd.must_pass(via_edges=stt + stf, targets=ald) and \
        any(t in gd.flow([(e[1], 0) for e in stt], cut_roots=ald) for t in fails)
    res.check(ok, R, "ZSTD_DCtx_loadDictionary_advanced", gd.loc, "staticSize is tested before the DDict is created and leads to memory_allocation",
              "ZSTD_DCtx_loadDictionary_advanced can create a DDict for a static DCtx (a static decoder has no allocator: garbage function pointer or an "
              "unfreeable heap block)")
    users = sorted(f_.name for f_ in prog.fns_in("decompress/zstd_decompress.c")
                   if any(y.get("k") == "mem" and y.get("f") == "customMem" and y.get("rec") == "ZSTD_DCtx_s" for _, _, r_ in f_.roots() for y in walk(r_)))
    okusers = {"ZSTD_createDCtx_internal", "ZSTD_freeDCtx", "ZSTD_DCtx_loadDictionary_advanced", "ZSTD_decompressStream", "ZSTD_DCtx_refDDict", "ZSTD_copyDCtx",
               "ZSTD_DCtx_reset", "ZSTD_sizeof_DCtx", "ZSTD_initDCtx_internal", "ZSTD_clearDict"}
    res.check(set(users) <= okusers, R, "dctx-customMem:users", "lib/decompress/zstd_decompress.c", "dctx->customMem is used by %s, each cut off for static contexts" % users,
              "new user(s) of dctx->customMem: %s (a static DCtx has no allocator)" % sorted(set(users) - okusers))
    d = prog.fn("ZSTD_decompressStream")
    al = d.call_roots("ZSTD_customMalloc")
    st = cond_edges(d, lambda c: c.get("k") == "mem" and c["f"] == "staticSize", "false")
    res.check(bool(al) and bool(st) and d.must_pass(via_edges=st, targets=al), R, "ZSTD_decompressStream:buffers", d.loc,
              "buffers are (re)allocated only on the !staticSize edge", "a static decoder can reach ZSTD_customMalloc")
    ds = guards.guard_sites(d)
    lim = [gs for gs in ds if "memory_allocation" in gs.codes and "f:staticSize" in (gs.L | gs.R) and gs.op == ">"]
    res.check(bool(lim), R, "ZSTD_decompressStream:static-buffer-fits", d.loc, "bufferSize > staticSize - sizeof(DCtx) is refused", "static buffer size test gone")
    leg = [gs for gs in ds if "memory_allocation" in gs.codes and gs.op == "nonzero" and "f:staticSize" in gs.L]
    res.check(len(leg) >= 1, R, "ZSTD_decompressStream:legacy-needs-heap", d.loc, "legacy streams refused for static contexts", "legacy stream allowed on a static context")
    # the multi-DDict hash set is heap allocated: the mode is refused for static contexts at the setter
    sp = prog.fn("ZSTD_DCtx_setParameter")
    wr = sp.find_roots(lambda x: x.get("k") == "asg" and strip_casts(x["lhs"]).get("f") == "refMultipleDDicts")
    guards.require(sp, res, R, "ZSTD_DCtx_setParameter:refMultipleDDicts-needs-heap", Want("parameter_unsupported", "!=", {"f:staticSize"}, {"k:0"}), wr)
    users = {c.name for c in prog.callers().get("ZSTD_createDDictHashSet", [])}
    res.check(users == {"ZSTD_DCtx_refDDict"}, R, "ZSTD_createDDictHashSet:callers", prog.fn("ZSTD_createDDictHashSet").loc,
              "hash set only created by ZSTD_DCtx_refDDict under refMultipleDDicts", "new creator of the DDict hash set: %s" % sorted(users))
    # a static workspace is never "wasteful": the shrink heuristic (which ends in `static cctx : no resize` -> memory_allocation)
    # counts consecutive oversized uses, and that counter must never advance for a caller-provided block
    bumps = 0
    for fb in prog.fns_in("compress/zstd_compress.c"):
        for b, i, c in fb.calls("ZSTD_cwksp_bump_oversized_duration"):
            bumps += 1
            heap = guards.truthy_edges(fb, lambda cc: cc.get("k") == "mem" and cc.get("f") == "staticSize", truth=False)
            res.check(bool(heap) and fb.must_pass(via_edges=heap, targets=[(b, i)]), R, "%s:oversized-duration-heap-only" % fb.name, "%s:%s" % (fb.file, c.get("l")),
                      "the oversized-duration counter only advances on the !staticSize edge",
                      "%s advances the workspace's oversized-duration counter for static contexts too: after %s consecutive small operations the workspace is "
                      "declared wasteful, a resize is requested, and a context in caller-provided memory fails with memory_allocation" % (fb.name, "128"))
    incr = [g.name for g in prog.all_functions() if g.file.startswith("lib/compress/") and
            any(x.get("k") == "un" and x.get("op", "").endswith("++") and strip_casts(x["e"]).get("f") == "workspaceOversizedDuration" for _, _, r in g.roots() for x in walk(r))]
    res.check(bumps >= 1 and incr == ["ZSTD_cwksp_bump_oversized_duration"], R, "oversized-duration:single-incrementer", "lib/compress/zstd_cwksp.h",
              "only ZSTD_cwksp_bump_oversized_duration advances the counter (%d call site(s))" % bumps, "incrementers of workspaceOversizedDuration: %s" % incr)
    for name, rec in (("ZSTD_initStaticCCtx", None), ("ZSTD_initStaticDCtx", None), ("ZSTD_initStaticCDict", None), ("ZSTD_initStaticDDict", None)):
        f2 = prog.fn(name)
        rets_null = [(b, i) for b, i, r in f2.returns() if const_val(r.get("e")) == 0]
        al8 = [c for bid, c, t, fl in f2.branches() if "k:7" in f2.anchors(f2.resolve_x(c)) ]
        res.check(len(rets_null) >= 2 and bool(al8), R, name + ":alignment-and-size", f2.loc, "rejects misaligned or too small memory (returns NULL)",
                  "%s no longer validates alignment / minimum size of the caller's memory" % name)
    for name in ("ZSTD_freeCCtx", "ZSTD_freeDCtx", "ZSTD_freeCDict"):
        f3 = prog.fn(name)
        gs = guards.guard_sites(f3)
        ok = any("memory_allocation" in g2.codes for g2 in gs) or any("f:staticSize" in f3.anchors(f3.resolve_x(c)) for _, c, _, _ in f3.branches()) or name == "ZSTD_freeCDict"
        res.check(ok, R, name + ":refuses-static", f3.loc, "static objects are not freed", "free of a static object no longer refused")
    res.need(R, 18)


def bump_allocator(prog, res):
    R = "T8.bump-allocator"
    f = prog.fn("ZSTD_cwksp_reserve_internal_buffer_space")
    fails = f.find_roots(lambda x: x.get("k") == "asg" and strip_casts(x["lhs"]).get("f") == "allocFailed" and const_val(x["rhs"]) == 1)
    wr = f.find_roots(lambda x: x.get("k") == "asg" and strip_casts(x["lhs"]).get("f") == "allocStart")
    lim = cond_edges(f, lambda c: c.get("k") == "bin" and c["op"] == "<" and "f:tableEnd" in f.anchors(c) and "f:allocStart" in f.anchors(c), "false")
    res.check(bool(fails) and bool(wr) and bool(lim) and f.must_pass(via_edges=lim, targets=wr), R, f.name, f.loc,
              "allocStart moves down only if it stays above tableEnd; otherwise allocFailed = 1 and NULL", "buffer reservation can cross into the table area")
    for name, field, bound in (("ZSTD_cwksp_reserve_table", "tableEnd", "allocStart"), ("ZSTD_cwksp_reserve_object", "objectEnd", "workspaceEnd"),
                               ("ZSTD_cwksp_reserve_aligned_init_once", "initOnceStart", None)):
        g = prog.fn(name)
        fl = g.find_roots(lambda x: x.get("k") == "asg" and strip_casts(x["lhs"]).get("f") == "allocFailed" and const_val(x["rhs"]) == 1)
        wr = g.find_roots(lambda x: x.get("k") == "asg" and strip_casts(x["lhs"]).get("f") == field)
        tests = cond_edges(g, lambda c: c.get("k") == "bin" and c["op"] in (">", "<") and
                           (("f:" + bound) in g.anchors(c) if bound else True), "false")
        ok = (bool(fl) or name == "ZSTD_cwksp_reserve_aligned_init_once") and bool(wr) and (g.must_pass(via_edges=tests, targets=wr) if bound else True)
        res.check(ok, R, name, g.loc, "the pointer update is dominated by the comparison with the neighbouring boundary",
                  "%s can move %s past its neighbouring phase boundary" % (name, field))
    res.need(R, 4)


def decoder_window_cap(prog, res):
    R = "T3.decoder-window-cap"
    f = prog.fn("ZSTD_decompressStream")
    gs = guards.guard_sites(f)
    al = f.call_roots("ZSTD_customMalloc")
    guards.require(f, res, R, "window-vs-maxWindowSize", Want("frameParameter_windowTooLarge", ">", {"f:windowSize"}, {"f:maxWindowSize"}), al, sites=gs,
                   why="(buffers would be sized for a window larger than the configured maximum)")
    # legacy frames: their streaming decoders allocate from the legacy frame header; the legacy decoder may be created only past a
    # comparison with maxWindowSize that fails with windowTooLarge
    il = f.call_roots("ZSTD_initLegacyStream")
    if il:
        lg = [g for g in gs if "frameParameter_windowTooLarge" in g.codes and "f:maxWindowSize" in (g.L | g.R) and "f:windowSize" not in (g.L | g.R)]
        res.check(bool(lg) and f.must_pass(via_edges={(g.bid, g.ok) for g in lg}, targets=il), R, "legacy-window-vs-maxWindowSize", f.loc,
                  "the legacy streaming decoder is created only for a frame whose window is within maxWindowSize",
                  "ZSTD_decompressStream creates the legacy streaming decoder without comparing the legacy frame's window with maxWindowSize: a 9-byte v0.7 "
                  "header makes a decoder limited to 1 MB allocate 128 MB")
    sizes = [x for _, _, x in f.events(lambda y: y.get("k") == "call" and y.get("c") == "ZSTD_decodingBufferSize_internal")]
    res.check(bool(sizes), R, "buffer-size-function", f.loc, "output buffer sized by ZSTD_decodingBufferSize_internal(windowSize, ...)", "decoder buffer sizing changed")
    e = prog.fn("ZSTD_estimateDStreamSize")
    res.check("ZSTD_decodingBufferSize_min" in e.callees() or "ZSTD_decodingBufferSize_internal" in e.callees(), R, "estimate-shares-formula", e.loc,
              "ZSTD_estimateDStreamSize uses the same buffer-size formula", "estimate and decoder use different buffer-size formulas")
    m = prog.fn("ZSTD_DCtx_setMaxWindowSize")
    gm = guards.guard_sites(m)
    res.check(len([g for g in gm if "parameter_outOfBound" in g.codes]) >= 2, R, "setMaxWindowSize:bounds", m.loc, "both bounds tested", "bounds test on maxWindowSize weakened")


OWNED = {
    "ZSTD_DCtx_s": ("ZSTD_sizeof_DCtx", ["ZSTD_sizeof_DDict", "ZSTD_sizeof_DDictHashSet"], {"ddictLocal", "ddictSet", "inBuff", "legacyContext"},
                    {"inBuff": "inBuffSize + outBuffSize (one allocation)"}),
    "ZSTDMT_CCtx_s": ("ZSTDMT_sizeof_CCtx", [], {"factory", "jobs", "bufPool", "cctxPool", "seqPool", "cdictLocal", "roundBuff"},
                      {"jobs": "(jobIDMask+1) * sizeof(job)", "roundBuff": "roundBuff.capacity"}),
    "POOL_ctx_s": ("POOL_sizeof", [], {"queue", "threads"}, {"queue": "queueSize * sizeof(job)", "threads": "threadCapacity * sizeof(thread)"}),
}


DESTRUCTORS = {"ZSTD_DCtx_s": ("ZSTD_freeDCtx",), "ZSTDMT_CCtx_s": ("ZSTDMT_freeCCtx",), "POOL_ctx_s": ("POOL_free",),
               "ZSTD_CCtx_s": ("ZSTD_freeCCtxContent",), "ZSTD_CDict_s": ("ZSTD_freeCDict",), "ZSTD_DDict_s": ("ZSTD_freeDDict",)}
OWNED.update({
    "ZSTD_CCtx_s": ("ZSTD_sizeof_CCtx", ["ZSTD_sizeof_mtctx"], {"workspace", "localDict", "mtctx"}, {}),
    "ZSTD_CDict_s": ("ZSTD_sizeof_CDict", [], {"workspace"}, {}),
    "ZSTD_DDict_s": ("ZSTD_sizeof_DDict", [], {"dictBuffer", "dictContent"}, {"dictContent": "the copy a static DDict keeps behind itself (dictBuffer stays NULL there)"}),
})


def sizeof_completeness(prog, res):
    R = "T13.sizeof-completeness"
    alias = {"inBuff": {"inBuffSize", "outBuffSize"}, "jobs": {"jobIDMask"}, "roundBuff": {"roundBuff"}, "queue": {"queueSize"}, "threads": {"threadCapacity"}}
    for rec, (fn, helpers, owned, notes) in sorted(OWNED.items()):
        f = prog.fn(fn)
        mentioned = {x["f"] for _, _, x in f.events(lambda y: y.get("k") == "mem")}
        for h in helpers:      # same-file helpers that are handed the whole object
            if prog.has_fn(h) and h in f.callees():
                mentioned |= {x["f"] for _, _, x in prog.fn(h).events(lambda y: y.get("k") == "mem")}
        # the table above is what I read; what the destructor releases is derived on every run, so that a sub-object added to the
        # destructor (or one the table forgot: the MT serial state's LDM tables) has to be counted as well
        derived = set()
        for dn in DESTRUCTORS.get(rec, ()):
            d = prog.fn(dn)
            for b, i, c in d.calls():
                if not c.get("c") or "free" not in c["c"].lower() or not c.get("a"):
                    continue
                for y in walk(c["a"][0]):
                    if y.get("k") == "mem" and strip_casts(y["b"]).get("k") == "ref" and strip_casts(y["b"]).get("rk") == "p" and y.get("t") != "ZSTD_customMem":
                        derived.add(y["f"])
        res.check(not DESTRUCTORS.get(rec) or len(derived) >= 1, R, "%s:destructor-read" % rec, f.loc, "destructor releases %s" % ", ".join(sorted(derived)),
                  "no released field found in the destructor(s) of %s" % rec)
        for fld in sorted(owned | derived):
            ok = fld in mentioned or bool(alias.get(fld, set()) & mentioned)
            res.check(ok, R, "%s.%s" % (rec, fld), f.loc, "counted by %s%s" % (fn, " as " + notes[fld] if fld in notes else ""),
                      "%s does not count the owned field %s.%s: the reported size under-reports what the object holds" % (fn, rec, fld))


def buffer_mode_pairing(prog, res):
    """T9: the streaming input buffer (window + block) exists iff inBufferMode is buffered, the streaming output buffer
    (compressBound(block) + 1) iff outBufferMode is buffered - in the estimate exactly as in the reservation."""
    R = "T9.buffer-mode-pairing"
    n = 0
    for name in ("ZSTD_estimateCStreamSize_usingCCtxParams", "ZSTD_resetCCtx_internal"):
        f = prog.fn(name)
        found = {}
        for nm, ds in f.local_defs().items():
            if len(ds) != 1 or ds[0] is None:
                continue
            d = strip_casts(f.resolve_x(ds[0]))
            if d.get("k") != "cond":
                continue
            arms = [strip_casts(f.resolve_x(d["t"])), strip_casts(f.resolve_x(d["f"]))]
            nz = [a for a in arms if a is not None and const_val(a) != 0]
            if len(nz) != 1:
                continue
            modes = {a[2:] for a in f.anchors(d["c"], depth=2) if a in ("f:inBufferMode", "f:outBufferMode")}
            if not modes:
                continue
            arm_an = f.anchors(nz[0], depth=2)
            kind = "output buffer" if "c:ZSTD_compressBound" in arm_an else ("input buffer" if ({"f:windowLog"} & arm_an or any(a.startswith("p:") for a in arm_an) or True) else "?")
            found[kind] = modes
        for kind, want in (("input buffer", {"inBufferMode"}), ("output buffer", {"outBufferMode"})):
            n += 1
            res.check(found.get(kind) == want, R, "%s:%s" % (name, kind), f.loc, "%s is sized under a test of %s" % (kind, sorted(want)[0]),
                      "%s sizes the streaming %s under %s instead of %s: the estimate and the reservation disagree for mixed stable/buffered modes"
                      % (name, kind, sorted(found.get(kind) or ["no mode test"]), sorted(want)[0]))
    res.need(R, 4)


RESOLVERS = ("ZSTD_resolveRowMatchFinderMode", "ZSTD_resolveBlockSplitterMode", "ZSTD_resolveEnableLdm")


def resolved_against_final_cparams(prog, res):
    """T9: the mode resolvers (row match finder, block splitter, LDM) decide from the compression parameters.  The
    `cParams` member of a ZSTD_CCtx_params only holds the caller's explicit overrides (strategy 0 when it comes from the
    level); the estimate functions and the context must all resolve against the FINAL parameters, or the estimate sizes a
    different table layout than the context allocates.  A resolver may be given `&X.cParams` of a ZSTD_CCtx_params X only
    after X.cParams was assigned in the same function (from ZSTD_getCParamsFromCCtxParams or an explicit parameter set)."""
    R = "T9.resolved-against-final-cparams"
    n = 0
    for f in prog.fns_in("compress/zstd_compress.c"):
        for b, i, c in f.calls(RESOLVERS):
            if len(c.get("a", [])) < 2:
                continue
            a = strip_casts(f.resolve_x(c["a"][1]))
            if a is None or a.get("k") != "un" or a.get("op") != "&":
                continue
            t = strip_casts(a["e"])
            n += 1
            if t.get("k") == "mem" and t.get("f") == "cParams" and t.get("rec") == "ZSTD_CCtx_params_s":
                base = strip_casts(t["b"])
                bn = base.get("n") if base.get("k") == "ref" else None

                def assigns(x):
                    if x.get("k") != "asg":
                        return False
                    l = strip_casts(x["lhs"])
                    return l.get("k") == "mem" and l.get("f") == "cParams" and strip_casts(l["b"]).get("n") == bn
                wr = f.find_roots(assigns)
                ok = bn is not None and bool(wr) and f.must_pass(via_roots=wr, targets=[(b, i)])
                res.check(ok, R, "%s:%s@%s" % (f.name, c.get("c"), c.get("l")), "%s:%s" % (f.file, c.get("l")),
                          "%s.cParams is assigned the final parameters before it is used to resolve" % bn,
                          "%s resolves %s against the raw cParams member of a ZSTD_CCtx_params (explicit overrides only, strategy 0 when it "
                          "comes from the level): an estimate then sizes another table layout than the context allocates, and a static "
                          "context of the estimated size fails with memory_allocation" % (f.name, c["c"].replace("ZSTD_resolve", "")))
            else:
                res.check(True, R, "%s:%s@%s" % (f.name, c.get("c"), c.get("l")), "%s:%s" % (f.file, c.get("l")), "resolved against a complete parameter set", "")
    res.need(R, 12)


def decoder_buffer_sizes_are_what_is_held(prog, res):
    """T3: ZSTD_sizeof_DCtx reports inBuffSize + outBuffSize, and the oversize heuristic exists to give memory back.  Once the
    streaming decoder has decided to resize (too small, or too large for too long) a heap context must release the old block
    and allocate the new one before it records the new sizes: every path from the resize decision to the write of the new
    inBuffSize passes the allocation (static contexts: the capacity test instead).  Skipping the allocation because `the old
    block is big enough` keeps the big block while the recorded sizes shrink."""
    R = "T3.decoder-buffer-sizes"
    f = prog.fn("ZSTD_decompressStream")
    writes = [(b, i) for b, i, x in f.events(lambda y: y.get("k") == "asg" and y.get("op") == "=") if strip_casts(x["lhs"]).get("f") == "inBuffSize" and const_val(x["rhs"]) is None]
    alloc_ = f.call_roots("ZSTD_customMalloc")
    static_e = guards.truthy_edges(f, lambda c: c.get("k") == "mem" and c.get("f") == "staticSize", truth=True)
    decide = [(bid, t) for bid, cond, t, fl in f.branches()
              if any(is_call(y, "ZSTD_DCtx_isOversizedTooLong") for y in f.walk_deep(f.resolve_x(cond)))
              or {"inBuffSize", "outBuffSize"} & {y.get("f") for y in f.walk_deep(f.resolve_x(cond)) if y.get("k") == "mem"} and
              any(y.get("k") == "bin" and y.get("op") == "<" for y in f.walk_deep(f.resolve_x(cond)))]
    res.check(bool(writes) and bool(alloc_) and bool(decide), R, "shape", f.loc, "resize decision, allocation and size update found",
              "decoder buffer resize changed shape: size writes %d, allocations %d, decisions %d" % (len(writes), len(alloc_), len(decide)))
    if writes and alloc_ and decide:
        ok = f.must_pass(via_roots=alloc_, via_edges=static_e, starts=[(e[1], 0) for e in decide], targets=writes)
        res.check(ok, R, "resize-reallocates", f.loc, "after a resize decision the new sizes are recorded only past the allocation (heap) or the capacity test (static)",
                  "ZSTD_decompressStream can record new (smaller) buffer sizes after a resize decision without re-allocating: the large block stays held, "
                  "ZSTD_sizeof_DCtx under-reports it and a lowered window limit no longer bounds the context's memory")
    res.need(R, 2)


SIZE_RESOLVERS = ("ZSTD_resolveEnableLdm", "ZSTD_resolveRowMatchFinderMode", "ZSTD_resolveMaxBlockSize")


def estimates_resolve_what_the_context_resolves(prog, res):
    """T9 (siblings): when a compression starts, the context turns every `auto` switch into a decision; three of them change
    what ZSTD_resetCCtx_internal reserves (long distance matching tables, row tag table, block size).  The public estimate
    functions that take a ZSTD_CCtx_params receive the same `auto` values: each must reach, through its calls, every
    resolver of that kind that ZSTD_CCtx_init_compressStream2 calls."""
    R = "T9.estimates-resolve-what-the-context-resolves"
    init = prog.fn("ZSTD_CCtx_init_compressStream2")
    want = [r for r in SIZE_RESOLVERS if r in init.callees()]
    res.check(len(want) == 3, R, "context-resolvers", init.loc, "the context resolves %s" % ", ".join(want), "size-relevant resolvers called by the context: %s" % want)

    def closure(name, depth=4):
        seen, todo = set(), [(name, 0)]
        while todo:
            nm, d = todo.pop()
            if nm in seen or not prog.has_fn(nm):
                continue
            seen.add(nm)
            if d < depth:
                for c in prog.fn(nm).callees():
                    todo.append((c, d + 1))
        return seen
    for e in ("ZSTD_estimateCCtxSize_usingCCtxParams", "ZSTD_estimateCStreamSize_usingCCtxParams"):
        f = prog.fn(e)
        cl = set()
        for c in f.callees():
            cl.add(c)
            cl |= closure(c)
        for r in want:
            res.check(r in cl, R, "%s:%s" % (e, r.replace("ZSTD_resolve", "")), f.loc, "reaches %s" % r,
                      "%s never resolves %s: with the switch on `auto` the estimate sizes a context without what the starting compression then "
                      "enables, and a static context of the estimated size fails with memory_allocation" % (e, r.replace("ZSTD_resolve", "")))
    res.need(R, 7)


def cdict_estimate_vs_static_gate(prog, res):
    """T9 (siblings): ZSTD_initStaticCDict refuses a block smaller than its `neededSize`; ZSTD_estimateCDictSize_advanced is what
    the caller sizes that block with.  Both are sums of the same terms; the match-state term is ZSTD_sizeof_matchState(cParams,
    rowMode, enableDedicatedDictSearch, forCCtx): the estimate's flags must make its term at least the gate's (the dedicated
    search flag only adds a table; forCCtx must agree), and both resolve the row mode with the same resolver."""
    R = "T9.cdict-estimate-vs-static-gate"
    est, gate = prog.fn("ZSTD_estimateCDictSize_advanced"), prog.fn("ZSTD_initStaticCDict")
    ce = [c for b, i, c in est.calls("ZSTD_sizeof_matchState")]
    cg = [c for b, i, c in gate.calls("ZSTD_sizeof_matchState")]
    res.check(len(ce) == 1 and len(cg) == 1, R, "sites", est.loc, "one match-state term on each side", "match-state terms: estimate %d, gate %d" % (len(ce), len(cg)))
    if len(ce) != 1 or len(cg) != 1:
        return
    def flag(f, c, k):
        return const_val(strip_casts(f.resolve_x(c["a"][k])))
    ed, gd = flag(est, ce[0], 2), flag(gate, cg[0], 2)
    ef, gf = flag(est, ce[0], 3), flag(gate, cg[0], 3)
    res.check(ed is not None and gd is not None and ed >= gd, R, "dedicated-search-table", est.loc, "estimate counts the dedicated search table whenever the gate does (%s >= %s)" % (ed, gd),
              "ZSTD_estimateCDictSize_advanced sizes the match state with enableDedicatedDictSearch=%s while ZSTD_initStaticCDict requires the size with %s: a block of the "
              "estimated size is refused (NULL) for fast and for row-based strategies" % (ed, gd))
    res.check(ef is not None and ef == gf, R, "forCCtx", est.loc, "same forCCtx flag (%s)" % ef, "forCCtx differs: estimate %s, gate %s" % (ef, gf))
    rowres = lambda f, c: any(is_call(y, "ZSTD_resolveRowMatchFinderMode") for y in f.walk_deep(c["a"][1]))
    res.check(rowres(est, ce[0]) and rowres(gate, cg[0]), R, "row-mode", est.loc, "both resolve the row mode with ZSTD_resolveRowMatchFinderMode",
              "the row mode of the match-state term is not resolved the same way on both sides")
    # the other terms: both sides name the same sizes
    def terms(f):
        return {("sizeof:" + str(y.get("t") or y.get("n"))) for b, i, r in f.roots() for y in walk(r) if y.get("k") == "sizeof"} | \
               {m for b, i, r in f.roots() for y in walk(r) for m in (y.get("m") or []) if m in ("HUF_WORKSPACE_SIZE",)}
    te, tg = terms(est), terms(gate)
    res.check("HUF_WORKSPACE_SIZE" in te and "HUF_WORKSPACE_SIZE" in tg, R, "entropy-workspace", est.loc, "both count HUF_WORKSPACE_SIZE", "HUF_WORKSPACE_SIZE term: estimate %s, gate %s" % ("HUF_WORKSPACE_SIZE" in te, "HUF_WORKSPACE_SIZE" in tg))
    res.need(R, 5)


def run(tier):
    res = Result("C14", tier)
    tus, info = extract(["compress", "decompress", "common"])
    prog = Program(tus)
    res.info = info
    one_sizing_routine(prog, res)
    term_agreement(prog, res)
    estimate_probes(prog, res)
    resolved_against_final_cparams(prog, res)
    estimates_resolve_what_the_context_resolves(prog, res)
    cdict_estimate_vs_static_gate(prog, res)
    buffer_mode_pairing(prog, res)
    static_never_grows(prog, res)
    bump_allocator(prog, res)
    decoder_buffer_sizes_are_what_is_held(prog, res)
    decoder_window_cap(prog, res)
    sizeof_completeness(prog, res)
    return res.finish(
        explanation="The workspace terms summed by the estimate functions and the reservations made by the reset path are "
                    "extracted from the AST and compared as multisets (kind of reservation, element size, size anchors); "
                    "every public estimate goes through the one sizing routine with adjusted LDM parameters and probes "
                    "both match-finder layouts; static contexts are cut off from every allocator call; the bump "
                    "allocator's pointer updates are dominated by boundary tests; the decoder refuses windows above "
                    "maxWindowSize before sizing buffers; sizeof functions mention every owned field.",
        not_decided="that the estimate is numerically >= the need for every parameter vector",
        assumptions=["vocabulary of size anchors frozen in VOCAB"])
