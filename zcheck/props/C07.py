"""C07 — compressed output is a pure function of input, parameters, dictionary and calls.
Static preconditions only: no state of an earlier operation survives into the next one
(T13 reset completeness for the match state, the window, the optimal parser statistics, the
compressed-block state, the CCtx frame session and the CCtx stream session), the table
cleanliness protocol of the workspace (T3), the row-hash salt is applied as a bijection (T7
shape), purity: nothing reachable from the compression entry points reads a clock, a PRNG,
the environment or a thread id (T14), and multithreaded job boundaries are computed from
byte counts only.  Not decided: bit-identity of two executions."""
from ..facts import extract, Broken
from ..ir import Program, walk, is_call, strip_casts, const_val, err_name
from ..report import Result
from ..rules import reset, guards
from ..rules.guards import cond_edges

COMPRESS_FILES = ("lib/compress/",)

# functions that configure, construct, copy or reset: their writes do not make state "dirty"
RESET_FAMILY = {
    "ZSTD_reset_matchState", "ZSTD_invalidateMatchState", "ZSTD_advanceHashSalt", "ZSTD_resetCCtx_internal",
    "ZSTD_resetCCtx_byAttachingCDict", "ZSTD_resetCCtx_byCopyingCDict", "ZSTD_copyCCtx_internal", "ZSTD_initCDict_internal",
    "ZSTD_window_init", "ZSTD_window_clear", "ZSTD_initCCtx", "ZSTD_initStaticCCtx", "ZSTD_freeCCtxContent", "ZSTD_clearAllDicts",
    "ZSTD_CCtx_reset", "ZSTD_CCtx_init_compressStream2", "ZSTD_reset_compressedBlockState", "ZSTDMT_serialState_reset",
    "ZSTD_CCtx_setParameter", "ZSTD_CCtx_setParametersUsingCCtxParams", "ZSTD_CCtx_refCDict", "ZSTD_CCtx_refThreadPool",
    "ZSTD_CCtx_loadDictionary_advanced", "ZSTD_CCtx_refPrefix_advanced", "ZSTD_initLocalDict", "ZSTD_CCtx_setPledgedSrcSize",
    "ZSTD_initCStream_advanced", "ZSTD_initCStream_internal", "ZSTD_initCStream_usingCDict_advanced", "ZSTD_registerSequenceProducer",
    "ZSTD_compress_advanced", "ZSTD_CCtx_trace",
}

MS_PERSIST = {
    ("hashTable",): "pointer re-reserved by the reset; the only op writer prefetches/stores entries, not the pointer",
    ("chainTable",): "pointer re-reserved by the reset",
    ("tagTable",): "pointer re-reserved by the reset; content neutralised by the hash salt (salt rule below)",
    ("hashCache",): "refilled by ZSTD_row_fillHashCache at the start of every row-based block (T3 instance below)",
    ("hashSaltEntropy",): "only feeds ZSTD_advanceHashSalt; the salt is applied as an XOR bijection, so its value never selects matches (salt rule below)",
    ("forceNonContiguous",): "written by every dictionary load and cleared by the first window update; a stale 1 selects the non-contiguous path, which is the path a fresh context takes",
    ("ldmSeqStore",): "per-block scratch pointer: ZSTD_buildSeqStore sets it before each use (T3 instance below)",
    ("opt", "literalCompressionMode"): "rewritten by ZSTD_buildSeqStore before every block",
    ("opt", "symbolCosts"): "rewritten by ZSTD_buildSeqStore before every block",
    ("cParams",): "overwritten by the reset",
}

CCTX_CONFIG = {
    ("requestedParams",): "configuration, not session state (C16)",
    ("cdict",): "configuration (C16)", ("localDict",): "configuration (C16)", ("prefixDict",): "single-use configuration, consumed by ZSTD_CCtx_init_compressStream2 (C16)",
    ("pool",): "configuration", ("customMem",): "set at creation", ("staticSize",): "set at creation", ("bmi2",): "set at creation",
    ("simpleApiParams",): "rebuilt by each ZSTD_compress_advanced call", ("mtctx",): "owned sub-context (C11)", ("traceCtx",): "tracing hook handle, no effect on output",
    ("cParamsChanged",): "only read in the multithreaded loop, where it re-applies requestedParams, the same values a new session starts from",
    ("workspace",): "memory (C13/C14)", ("tmpWorkspace",): "memory", ("tmpWkspSize",): "memory", ("initialized",): "memory",
}
CCTX_STREAM = {
    ("streamStage",): "stream session: ZSTD_CCtx_reset (checked by T13.cctx-stream-session)",
    ("inBuffPos",): "stream session", ("inToCompress",): "stream session", ("inBuffTarget",): "stream session",
    ("outBuffContentSize",): "stream session", ("outBuffFlushedSize",): "stream session", ("frameEnded",): "stream session",
    ("stableIn_notConsumed",): "stream session", ("expectedInBuffer",): "stream session", ("expectedOutBufferSize",): "stream session",
}
CCTX_FRAME_PERSIST = dict(CCTX_CONFIG)
CCTX_FRAME_PERSIST.update(CCTX_STREAM)
CCTX_FRAME_PERSIST.update({
    ("blockState", "nextCBlock"): "scratch: rep copied from prevCBlock and entropy rebuilt in every block before being read; swapped into prevCBlock only on success",
    ("seqStore",): "per-block scratch, ZSTD_resetSeqStore at the start of every block",
    ("seqCollector",): "scoped to ZSTD_generateSequences (T3 instance scoped-collector)",
    ("blockState", "$"): "whole-struct address handed to ZSTD_blockState_confirmRepcodesAndEntropyTables, which only swaps prevCBlock/nextCBlock; the members are tracked individually",
    ("externSeqStore",): "ZSTD_referenceExternalSequences(zc, NULL, 0) on every reset path (instance externSeqStore-cleared)",
    ("appliedParams",): "overwritten by the reset",
    ("ldmState",): "reset when LDM is enabled, unused otherwise (T13.ldm-state below)",
})


def compress_fns(prog):
    out = []
    for name, fs in prog.functions.items():
        f = fs[0]
        if f.file.startswith(COMPRESS_FILES) and name not in RESET_FAMILY:
            out.append(f)
    return out


def scoped_collector(prog, res):
    R = "T3.scoped-collector"
    writers = []
    for f in compress_fns(prog):
        for b, i, x in f.events(lambda y: y.get("k") == "asg"):
            p = reset.field_path_from(x["lhs"], "ZSTD_CCtx_s")
            if p and p[0] == "seqCollector":
                writers.append((f, b, i, x, p))
    setters = [(f, b, i, x, p) for f, b, i, x, p in writers if not (p == ("seqCollector", "collectSequences") and const_val(x["rhs"]) == 0)]
    res.check(len(setters) >= 1, R, "setters-found", "lib/compress/zstd_compress.c", "%d place(s) arm the sequence collector" % len(setters), "no collector setter found")
    for f, b, i, x, p in setters:
        clears = [(b2, i2) for f2, b2, i2, x2, p2 in writers if f2 is f and p2 == ("seqCollector", "collectSequences") and const_val(x2["rhs"]) == 0]
        ok = bool(clears) and f.must_pass(via_roots=clears, starts=[(b, i + 1)])
        res.check(ok, R, f.name + ":disarmed-on-every-exit", "%s:%s" % (f.file, x.get("l")),
                  "collector armed here is disarmed on every path out of " + f.name,
                  "%s arms cctx->seqCollector and can return with it still armed: the next compression with this context "
                  "writes sequences into the old buffer instead of producing output" % f.name)
    res.need(R, 2)


def salt_rule(prog, res):
    R = "T7.salt-is-a-bijection"
    n = 0
    for name in ("ZSTD_hash4", "ZSTD_hash5", "ZSTD_hash6", "ZSTD_hash7", "ZSTD_hash8"):
        f = prog.fn(name)
        sname = f.params[-1]["n"]
        rets = f.returns()
        ok = len(rets) == 1
        if ok:
            e = strip_casts(rets[0][2]["e"])
            # (X ^ s) >> K  with X, K free of s
            ok = e.get("k") == "bin" and e["op"] == ">>"
            if ok:
                l = strip_casts(e["lhs"])
                ok = l.get("k") == "bin" and l["op"] == "^"
                if ok:
                    a, b = strip_casts(l["lhs"]), strip_casts(l["rhs"])
                    sal = [y for y in (a, b) if y.get("k") == "ref" and y.get("n") == sname]
                    oth = [y for y in (a, b) if not (y.get("k") == "ref" and y.get("n") == sname)]
                    ok = len(sal) == 1 and len(oth) == 1 and not any(y.get("n") == sname for y in walk(oth[0])) \
                        and not any(y.get("n") == sname for y in walk(e["rhs"]))
        res.check(ok, R, name, f.loc, "salt enters as `(mix ^ salt) >> shift`: a permutation of hash values, collisions unchanged",
                  "the salt no longer enters %s as a plain XOR before the final shift; two salts may give different collision sets, so output would depend on context history" % name)
        n += 1
    adv = prog.fn("ZSTD_advanceHashSalt")
    w = reset.written_paths(adv, "ZSTD_matchState_t")
    res.check(set(w) == {("hashSalt",)}, R, "advance-writes-only-salt", adv.loc, "ZSTD_advanceHashSalt writes hashSalt only", "writes %s" % sorted(w))
    # salt users: every salted hash call gets ms->hashSalt (not another value)
    users = 0
    for f in prog.fns_in("lib/compress/zstd_lazy.c"):
        for b, i, c in f.calls(("ZSTD_hashPtrSalted",)):
            a = strip_casts(c["a"][-1])
            ok = a.get("k") == "mem" and a.get("f") == "hashSalt" or (a.get("k") == "ref")
            if a.get("k") == "ref":
                d = f.single_def(a["n"])
                ok = (d is not None and any(y.get("f") == "hashSalt" for y in walk(d))) or a.get("rk") == "p"
            res.check(ok, R, "%s:salted-call@%s" % (f.name, c.get("l")), "%s:%s" % (f.file, c.get("l")), "salt argument is the match state's hashSalt", "salted hash not fed from ms->hashSalt")
            users += 1
    res.need(R, 8)


def cleanliness(prog, res):
    R = "T3.table-cleanliness"
    g = prog.fn("ZSTD_reset_matchState")
    reserve = g.call_roots("ZSTD_cwksp_reserve_table")
    clean = g.call_roots("ZSTD_cwksp_clean_tables")
    e = cond_edges(g, lambda c: c.get("k") == "bin" and c["op"] == "!=" and any(y.get("n") == "ZSTDcrp_leaveDirty" for y in walk(c)), "true")
    ok = len(reserve) == 3 and len(clean) == 1 and bool(e) and g.must_pass(via_edges=e, targets=clean) \
        and g.must_pass(via_roots=clean, starts=[(x[1], 0) for x in e], targets=reset.success_returns(g))
    res.check(ok, R, "reset_matchState:clean-unless-leaveDirty", g.loc, "tables are cleaned on every path unless the caller asked for leaveDirty",
              "reserved tables can be handed out dirty")
    dirty = g.call_roots("ZSTD_cwksp_mark_tables_dirty")
    e2 = cond_edges(g, lambda c: c.get("k") == "bin" and c["op"] == "==" and any(y.get("n") == "ZSTDirp_reset" for y in walk(c)), "true")
    res.check(bool(dirty) and bool(e2) and g.must_pass(via_roots=dirty, starts=[(x[1], 0) for x in e2], targets=reserve), R, "reset_matchState:index-reset-dirties",
              g.loc, "an index reset marks the tables dirty before they are re-reserved", "index reset no longer invalidates table contents")
    # who asks for leaveDirty: only the CDict-copy path, which overwrites every table
    askers = set()
    for f in compress_fns(prog) + [prog.fn(n) for n in ("ZSTD_resetCCtx_byCopyingCDict", "ZSTD_resetCCtx_byAttachingCDict", "ZSTD_copyCCtx_internal", "ZSTD_initCDict_internal")]:
        for b, i, c in f.calls(("ZSTD_resetCCtx_internal", "ZSTD_reset_matchState")):
            if any(y.get("n") == "ZSTDcrp_leaveDirty" for a in c["a"] for y in walk(a)):
                askers.add(f.name)
    res.check(askers == {"ZSTD_resetCCtx_byCopyingCDict", "ZSTD_copyCCtx_internal"}, R, "leaveDirty-askers", "lib/compress/zstd_compress.c",
              "only the two table-copying resets skip cleaning: %s" % sorted(askers), "unexpected leaveDirty callers: %s" % sorted(askers))
    for name in sorted(askers):
        f = prog.fn(name)
        cp = f.call_roots(("memcpy", "__builtin_memcpy"))
        md = f.call_roots("ZSTD_cwksp_mark_tables_dirty")
        mc = f.call_roots("ZSTD_cwksp_mark_tables_clean")
        tg = reset.success_returns(f)
        ok = len(cp) >= 2 and bool(mc) and f.must_pass(via_roots=mc, targets=tg) and (not md or f.must_pass(via_roots=md, targets=mc))
        res.check(ok, R, name + ":copied-then-marked-clean", f.loc, "tables are overwritten by copies and then marked clean on every successful path",
                  "a leaveDirty reset is not followed by a full copy + mark clean")
        # `leaveDirty` only means "do not zero now".  The copies cover the SOURCE's table sizes; whatever lies beyond them in this context's
        # table area keeps entries of earlier frames while the copied window restarts the indices: everything must first be declared dirty, so
        # that the next reset that enlarges the tables zeroes it.
        ok2 = bool(md) and all(f.must_pass(via_roots=md, targets=[c]) for c in cp if c in f.flow([(b, i + 1) for b, i in f.call_roots("ZSTD_resetCCtx_internal")]))
        res.check(ok2, R, name + ":marked-dirty-before-the-copies", f.loc, "the whole table area is marked dirty before the tables are copied over",
                  "%s copies tables over a leaveDirty reset without marking the table area dirty first: a later frame with larger tables finds entries of an "
                  "earlier frame beyond the copied part, inside its new window - the output then depends on what the context compressed before (and the stale "
                  "indices can point outside the input)" % name)
    # the tag table: init-once memory + salt, or memset + salt 0
    once = g.call_roots("ZSTD_cwksp_reserve_aligned_init_once")
    adv = g.call_roots("ZSTD_advanceHashSalt")
    res.check(len(once) == 1 and len(adv) == 1 and g.must_pass(via_roots=adv, starts=[(once[0][0], once[0][1] + 1)]), R, "tagTable:init-once-needs-new-salt", g.loc,
              "an un-cleared tag table always gets a fresh salt", "tag table reused without advancing the salt")
    other = [(b, i) for b, i, x in g.events(lambda y: y.get("k") == "asg") if strip_casts(x["lhs"]).get("f") == "tagTable" and (b, i) not in once
             and not any(is_call(y, "ZSTD_cwksp_reserve_aligned_init_once") for y in walk(g.resolve_x(x["rhs"]) or {}))]
    ms = g.call_roots(("memset", "__builtin_memset"))
    zero_salt = g.find_roots(lambda x: x.get("k") == "asg" and strip_casts(x["lhs"]).get("f") == "hashSalt" and const_val(x["rhs"]) == 0)
    ok = bool(other) and all(g.must_pass(via_roots=ms, starts=[(b, i + 1)]) and g.must_pass(via_roots=zero_salt, starts=[(b, i + 1)]) for b, i in other)
    res.check(ok, R, "tagTable:unsalted-is-zeroed", g.loc, "a tag table reserved without salt is zeroed and its salt is 0", "unsalted tag table is not zeroed")
    # overflow correction: dirty .. reduce .. clean (shared with C15, instance kept here for the protocol count)
    f = prog.fn("ZSTD_overflowCorrectIfNeeded")
    d, c = f.call_roots("ZSTD_cwksp_mark_tables_dirty"), f.call_roots("ZSTD_cwksp_mark_tables_clean")
    res.check(bool(d) and bool(c) and f.must_pass(via_roots=c, starts=[(b, i + 1) for b, i in d]), R, "overflowCorrect:dirty-then-clean", f.loc, "dirty mark always followed by clean mark", "tables left marked dirty")
    # the cwksp side: clean_tables zeroes [tableValidEnd, tableEnd) and then marks clean; mark_dirty lowers tableValidEnd to the start
    ct = prog.fn("ZSTD_cwksp_clean_tables")
    ms = ct.call_roots(("memset", "__builtin_memset"))
    mk = ct.call_roots("ZSTD_cwksp_mark_tables_clean")
    ok = len(ms) == 1 and bool(mk) and ct.must_pass(via_roots=mk, targets=[ct.exit_node()])
    if ok:
        call = [c for b, i, c in ct.calls(("memset", "__builtin_memset"))][0]
        ok = "f:tableValidEnd" in ct.anchors(call["a"][0], depth=2) and {"f:tableEnd", "f:tableValidEnd"} <= ct.anchors(call["a"][2], depth=2)
        e = cond_edges(ct, lambda c: c.get("k") == "bin" and c["op"] == "<" and {"f:tableValidEnd", "f:tableEnd"} <= ct.anchors(c), "true")
        ok = ok and bool(e) and ct.must_pass(via_edges=e, targets=ms)
    res.check(ok, R, "cwksp_clean_tables", ct.loc, "zeroes exactly [tableValidEnd, tableEnd) and marks clean", "clean_tables no longer zeroes the dirty part of the tables")
    md = prog.fn("ZSTD_cwksp_mark_tables_dirty")
    w = [x for b, i, x in md.events(lambda y: y.get("k") == "asg") if strip_casts(x["lhs"]).get("f") == "tableValidEnd"]
    res.check(len(w) == 1 and "f:objectEnd" in md.anchors(w[0]["rhs"]), R, "cwksp_mark_tables_dirty", md.loc, "tableValidEnd = objectEnd: nothing counts as clean", "mark_tables_dirty no longer invalidates all tables")
    cl = prog.fn("ZSTD_cwksp_clear")
    res.check(bool(cl.call_roots("ZSTD_cwksp_clear_tables")) or any(strip_casts(x["lhs"]).get("f") == "tableEnd" for b, i, x in cl.events(lambda y: y.get("k") == "asg")),
              R, "cwksp_clear:tables-released", cl.loc, "clearing the workspace releases the table area", "table area not released")
    res.need(R, 10)


def per_block_refresh(prog, res):
    R = "T3.per-block-refresh"
    n = 0
    # row hash cache filled before any row search in each row-based block compressor
    for name in ("ZSTD_compressBlock_lazy_generic", "ZSTD_compressBlock_lazy_extDict_generic"):
        f = prog.fn(name)
        fill = f.call_roots("ZSTD_row_fillHashCache")
        search = f.call_roots(("ZSTD_searchMax",))
        res.check(bool(fill) and bool(search), R, name + ":anchors", f.loc, "fill and search sites present", "anchors vanished")
        e = cond_edges(f, lambda c: any(y.get("n") == "search_rowHash" for y in walk(c)), "false")
        ok = bool(fill) and bool(search) and f.must_pass(via_roots=fill, via_edges=e, targets=search)
        res.check(ok, R, name + ":hashCache-filled-before-search", f.loc, "for the row match finder the hash cache is refilled before the first search of each block",
                  "row search can read the hash cache of a previous block/frame")
        # lazySkipping reset at block start
        ls = f.find_roots(lambda x: x.get("k") == "asg" and strip_casts(x["lhs"]).get("f") == "lazySkipping" and const_val(x["rhs"]) == 0)
        res.check(bool(ls), R, name + ":lazySkipping-cleared", f.loc, "lazySkipping returns to 0 inside the block loop", "lazySkipping is never cleared")
    # opt parser: statistics rescaled before any price is computed
    f = prog.fn("ZSTD_compressBlock_opt_generic")
    rs = f.call_roots("ZSTD_rescaleFreqs")
    price = f.call_roots(("ZSTD_litLengthPrice", "ZSTD_getMatchPrice", "ZSTD_rawLiteralsCost", "ZSTD_updateStats"))
    res.check(len(rs) == 1 and len(price) >= 4 and f.must_pass(via_roots=rs, targets=price), R, "opt:rescale-before-pricing", f.loc,
              "ZSTD_rescaleFreqs dominates every price computation and statistics update", "prices can be computed from the statistics of a previous block without rescaling")
    # ldmSeqStore set before each block compressor call in ZSTD_buildSeqStore
    b = prog.fn("ZSTD_buildSeqStore")
    sets = b.find_roots(lambda x: x.get("k") == "asg" and strip_casts(x["lhs"]).get("f") == "ldmSeqStore")
    calls = []      # indirect calls of the block compressor chosen by ZSTD_selectBlockCompressor
    for bb, i, r in b.roots():
        for y in walk(r):
            if y.get("k") == "call" and y.get("c") is None:
                fn = strip_casts(y.get("fn"))
                d = b.single_def(fn["n"]) if fn is not None and fn.get("k") == "ref" and fn.get("rk") in ("l", "sl") else None
                if d is not None and any(is_call(z, "ZSTD_selectBlockCompressor") for z in walk(d)):
                    calls.append((bb, i))
    ext = b.call_roots(("ZSTD_ldm_blockCompress",))
    res.check(len(sets) >= 2 and bool(calls) and b.must_pass(via_roots=sets + ext, targets=calls), R, "buildSeqStore:ldmSeqStore-set-before-compressor", b.loc,
              "ms->ldmSeqStore is (re)assigned before the block compressor runs", "block compressor can see the ldmSeqStore pointer of an earlier block")
    sc = b.find_roots(lambda x: x.get("k") == "asg" and strip_casts(x["lhs"]).get("f") in ("symbolCosts", "literalCompressionMode"))
    res.check(len(sc) >= 2 and b.must_pass(via_roots=[sc[0]], targets=calls + ext), R, "buildSeqStore:opt-inputs-set", b.loc, "opt.symbolCosts / literalCompressionMode set before every block", "opt inputs stale")
    rss = b.call_roots("ZSTD_resetSeqStore")
    res.check(bool(rss) and b.must_pass(via_roots=rss, targets=calls + ext), R, "buildSeqStore:seqStore-reset", b.loc, "the sequence store is reset before each block", "sequence store not reset")
    res.need(R, 9)


def opt_first_block(prog, res):
    R = "T13.opt-statistics"
    inv = prog.fn("ZSTD_invalidateMatchState")
    z = inv.find_roots(lambda x: x.get("k") == "asg" and reset.field_path_from(x["lhs"], "ZSTD_matchState_t") == ("opt", "litLengthSum") and const_val(x["rhs"]) == 0)
    res.check(len(z) == 1, R, "invalidate:litLengthSum=0", inv.loc, "the reset zeroes opt.litLengthSum", "reset no longer forces the first-block statistics path")
    f = prog.fn("ZSTD_rescaleFreqs")
    first = cond_edges(f, lambda c: c.get("k") == "bin" and c["op"] == "==" and any(y.get("f") == "litLengthSum" for y in walk(c)) and const_val(c["rhs"]) == 0, "true")
    res.check(len(first) == 1, R, "rescaleFreqs:first-block-test", f.loc, "first block recognised by litLengthSum == 0", "first-block test changed")
    w = reset.written_paths(f, "optState_t")
    later = cond_edges(f, lambda c: c.get("k") == "bin" and c["op"] == "==" and any(y.get("f") == "litLengthSum" for y in walk(c)) and const_val(c["rhs"]) == 0, "false")
    noLit = cond_edges(f, lambda c: strip_casts(c).get("k") == "ref" and strip_casts(c).get("rk") in ("l", "sl"), "false")
    arms = [cond_edges(f, lambda c: c.get("k") == "bin" and c["op"] == "==" and any(y.get("n") == "HUF_repeat_valid" for y in walk(c)), w_) for w_ in ("true", "false")]
    res.check(all(len(a) == 1 for a in arms), R, "rescaleFreqs:dictionary-vs-default-arms", f.loc, "first block: statistics from dictionary tables or from defaults", "arms changed")
    # scalars: every entry-to-exit path through the first-block edge writes them (paths through the later-block edge are cut)
    for fld, cut in (("litLengthSum", set()), ("matchLengthSum", set()), ("offCodeSum", set()), ("priceType", set()), ("litSum", noLit)):
        sites = [(b, i) for b, i, _ in w.get((fld,), [])]
        ok = bool(first) and bool(sites) and f.must_pass(via_roots=sites, via_edges=set(later) | set(cut), targets=[f.exit_node()])
        res.check(ok, R, "rescaleFreqs:first-block-writes-" + fld, f.loc, "rebuilt from the dictionary tables or the defaults on every first-block path",
                  "on a first block `%s` can keep the value left by the previous frame" % fld)
    # arrays are filled by constant-bound loops / memcpy / HIST_count_simple: one filling site inside each arm
    hist = [(b, i, c) for b, i, c in f.calls("HIST_count_simple")]
    for fld in ("litLengthFreq", "matchLengthFreq", "offCodeFreq", "litFreq"):
        sites = [(b, i) for b, i, _ in w.get((fld,), [])]
        sites += [(b, i) for b, i, c in hist if any(y.get("f") == fld for y in walk(c["a"][0]))]
        ok = bool(sites) and all(a and any(f.must_pass(via_edges=set(a), targets=[s_]) for s_ in sites) for a in arms)
        res.check(ok, R, "rescaleFreqs:first-block-fills-" + fld, f.loc, "filled in the dictionary arm and in the default arm",
                  "`%s` is not rebuilt in one of the first-block arms: statistics of the previous frame leak into prices" % fld)
    sb = f.call_roots("ZSTD_setBasePrices")
    res.check(bool(sb) and f.must_pass(via_roots=sb, targets=[f.exit_node()]), R, "rescaleFreqs:setBasePrices", f.loc, "base prices recomputed on every path", "base prices stale")
    p = prog.fn("ZSTD_setBasePrices")
    wp = reset.written_paths(p, "optState_t")
    res.check({("litLengthSumBasePrice",), ("matchLengthSumBasePrice",), ("offCodeSumBasePrice",)} <= set(wp), R, "setBasePrices:all-sums", p.loc, "three sequence base prices recomputed", "a base price is not recomputed")
    # anything else the op code writes in optState_t must be one of the fields accounted for here
    known = {"litFreq", "litLengthFreq", "matchLengthFreq", "offCodeFreq", "litSum", "litLengthSum", "matchLengthSum", "offCodeSum", "priceType",
             "litSumBasePrice", "litLengthSumBasePrice", "matchLengthSumBasePrice", "offCodeSumBasePrice", "literalCompressionMode", "symbolCosts", "matchTable", "priceTable"}
    seen = set()
    for g in prog.fns_in("lib/compress/zstd_opt.c", "lib/compress/zstd_compress.c"):
        seen |= {p2[0] for p2 in reset.written_paths(g, "optState_t")}
    rec = {x["n"] for x in prog.record("optState_t")["fields"]}
    res.check(rec <= known, R, "optState_t:every-field-accounted", p.loc, "all %d fields of optState_t are covered by the rules above" % len(rec),
              "optState_t has field(s) %s with no reset rule" % sorted(rec - known))
    res.need(R, 14)


def block_state(prog, res):
    R = "T13.compressed-block-state"
    f = prog.fn("ZSTD_reset_compressedBlockState")
    w = reset.written_paths(f, "ZSTD_compressedBlockState_t")
    need = {("rep",), ("entropy", "huf", "repeatMode"), ("entropy", "fse", "offcode_repeatMode"), ("entropy", "fse", "matchlength_repeatMode"), ("entropy", "fse", "litlength_repeatMode")}
    for p in sorted(need):
        sites = [(b, i) for b, i, _ in w.get(p, [])]
        ok = bool(sites) and (p == ("rep",) or f.must_pass(via_roots=sites, targets=[f.exit_node()]))
        res.check(ok, R, ".".join(p), f.loc, "re-established by ZSTD_reset_compressedBlockState", "`%s` keeps the value of the previous frame" % ".".join(p))
    # the rep loop runs to ZSTD_REP_NUM
    ms = {m for _, _, x in f.events() for m in x.get("m", [])}
    res.check("ZSTD_REP_NUM" in ms and any(y.get("n") == "repStartValue" for _, _, r in f.roots() for y in walk(r)), R, "rep:all-from-repStartValue", f.loc,
              "all ZSTD_REP_NUM repcodes restart from repStartValue", "repcode restart changed")
    # every repeat-mode field of the entropy tables is covered: enumerate the record
    modes = set()
    for rn, pre in (("ZSTD_hufCTables_t", ("entropy", "huf")), ("ZSTD_fseCTables_t", ("entropy", "fse"))):
        for fld in prog.record(rn)["fields"]:
            if fld["n"].endswith("epeatMode"):
                modes.add(pre + (fld["n"],))
    res.check(modes <= set(w), R, "every-repeatMode-field", f.loc, "%d repeat-mode fields, all reset to *_repeat_none" % len(modes), "repeat-mode field(s) not reset: %s" % sorted(modes - set(w)))
    for b, i, x in f.events(lambda y: y.get("k") == "asg"):
        p = reset.field_path_from(x["lhs"], "ZSTD_compressedBlockState_t")
        if p and p[-1].endswith("epeatMode"):
            res.check(const_val(x["rhs"]) == 0, R, "none:" + p[-1], f.loc, "reset value is *_repeat_none (0)", "repeat mode reset to a value that lets stale tables be reused")
    res.need(R, 10)


def window_rules(prog, res):
    R = "T13.window"
    ops = [prog.fn(n) for n in ("ZSTD_window_update", "ZSTD_window_correctOverflow", "ZSTD_window_enforceMaxDist", "ZSTD_window_clear")]
    init = prog.fn("ZSTD_window_init")
    reset.reset_completeness(prog, res, R, "ZSTD_window_t", ops, init, [], {}, 5)
    # memset of the whole window counts for all; additionally the explicit start index
    w = reset.written_paths(init, "ZSTD_window_t")
    ms = {m for _, _, x in init.events() for m in x.get("m", [])}
    res.check("ZSTD_WINDOW_START_INDEX" in ms and {("dictLimit",), ("lowLimit",), ("nextSrc",), ("base",), ("dictBase",)} <= set(w), R, "init:start-index", init.loc,
              "limits and nextSrc restart at ZSTD_WINDOW_START_INDEX from a constant base", "window start no longer fixed")
    for fld in ("base", "dictBase"):
        a = [x for b, i, x in init.events(lambda y: y.get("k") == "asg") if strip_casts(x["lhs"]).get("f") == fld]
        ok = len(a) == 1 and any(y.get("k") == "str" for y in walk(a[0]["rhs"]))
        res.check(ok, R, "init:%s-constant" % fld, init.loc, "%s points at a constant, not at caller memory" % fld, "%s initialised from a caller address" % fld)
    clr = prog.fn("ZSTD_window_clear")
    wc = reset.written_paths(clr, "ZSTD_window_t")
    ok = set(wc) == {("lowLimit",), ("dictLimit",)}
    from_end = 0
    for b, i, x in clr.events(lambda y: y.get("k") == "asg"):
        if strip_casts(x["lhs"]).get("k") == "mem":
            an = clr.anchors(x["rhs"], depth=3)
            if {"f:nextSrc", "f:base"} <= an:
                from_end += 1
            else:       # or a copy of the other limit, which was itself set from the end
                ok = ok and bool({"f:lowLimit", "f:dictLimit"} & an)
    ok = ok and from_end >= 1
    res.check(ok, R, "clear:limits=end", clr.loc, "both limits move to nextSrc - base: nothing older is referencable", "window_clear no longer hides all previous content")
    res.need(R, 9)


def matchstate_reset(prog, res):
    R = "T13.match-state"
    ops = compress_fns(prog)
    rf = prog.fn("ZSTD_reset_matchState")
    helpers = [prog.fn("ZSTD_invalidateMatchState")]
    n = reset.reset_completeness(prog, res, R, "ZSTD_matchState_t", ops, rf, helpers, MS_PERSIST, 12)
    # no persist entry may be stale
    dirty = set()
    for f in ops:
        dirty |= set(reset.written_paths(f, "ZSTD_matchState_t", prog=prog))
    for pp in MS_PERSIST:
        if pp == ("cParams",):
            continue
        res.check(any(p[:len(pp)] == pp for p in dirty), R, "persist-entry-live:" + ".".join(pp), rf.loc, "exception still needed", "exception no longer matches any write (remove it)")
    inv = prog.fn("ZSTD_invalidateMatchState")
    a = [x for b, i, x in inv.events(lambda y: y.get("k") == "asg") if strip_casts(x["lhs"]).get("f") == "nextToUpdate"]
    res.check(len(a) == 1 and "f:dictLimit" in inv.anchors(a[0]["rhs"]) and
              inv.must_pass(via_roots=inv.call_roots("ZSTD_window_clear"), targets=inv.find_roots(lambda x: x is a[0])), R, "invalidate:nextToUpdate=dictLimit-after-clear", inv.loc,
              "nextToUpdate restarts at the cleared window's limit", "nextToUpdate not tied to the cleared window")
    # every field of the record is either written by the reset path, on the persist list, or never written by ops
    recf = {x["n"] for x in prog.record("ZSTD_matchState_t")["fields"]}
    covered = {p[0] for p in reset.written_paths(rf, "ZSTD_matchState_t", prog=prog)} | {p[0] for p in reset.written_paths(inv, "ZSTD_matchState_t", prog=prog)} | {p[0] for p in MS_PERSIST}
    covered |= {"dedicatedDictSearch", "prefetchCDictTables", "hashSalt"}   # configuration set by the callers of the reset / advanced by design
    res.check(recf <= covered, R, "every-field-accounted", rf.loc, "all %d fields of ZSTD_matchState_t are reset, configured or on the exception list" % len(recf),
              "field(s) %s of ZSTD_matchState_t have no reset rule" % sorted(recf - covered))


def cctx_frame(prog, res):
    R = "T13.cctx-frame-session"
    ops = compress_fns(prog)
    rf = prog.fn("ZSTD_resetCCtx_internal")
    ldm = cond_edges(rf, lambda c: c.get("k") == "bin" and c["op"] == "==" and any(y.get("f") == "enableLdm" for y in walk(c)), "false")
    reset.reset_completeness(prog, res, R, "ZSTD_CCtx_s", ops, rf, [prog.fn("ZSTD_referenceExternalSequences")], CCTX_FRAME_PERSIST, 12,
                             ptr_calls={"ZSTD_reset_compressedBlockState": 0})
    ext = prog.fn("ZSTD_referenceExternalSequences")
    we = {p[1] for p in reset.written_paths(ext, "ZSTD_CCtx_s") if p[0] == "externSeqStore" and len(p) == 2}
    allf = {x["n"] for x in prog.record("rawSeqStore_t")["fields"]}
    c = rf.call_roots("ZSTD_referenceExternalSequences")
    res.check(we == allf and len(c) == 1 and rf.must_pass(via_roots=c, targets=reset.success_returns(rf)), R, "externSeqStore-cleared", rf.loc,
              "all %d fields of the external sequence store are reset on every path" % len(allf), "external sequence store not fully reset: %s" % sorted(allf - we))
    # LDM state: reset under enableLdm == ZSTD_ps_enable
    w = reset.written_paths(rf, "ZSTD_CCtx_s", prog=prog)
    on = cond_edges(rf, lambda c: c.get("k") == "bin" and c["op"] == "==" and any(y.get("f") == "enableLdm" for y in walk(c)), "true")
    for p in (("ldmState", "window"), ("ldmState", "loadedDictEnd"), ("ldmState", "hashTable"), ("ldmState", "bucketOffsets")):
        sites = [(b, i) for b, i, _ in w.get(p, [])]
        ok = bool(sites) and bool(on) and rf.must_pass(via_roots=sites, via_edges=ldm, targets=reset.success_returns(rf))
        res.check(ok, "T13.ldm-state", ".".join(p), rf.loc, "re-established whenever LDM is enabled", "LDM field `%s` keeps the previous frame's value" % ".".join(p))
    ms = rf.call_roots(("memset", "__builtin_memset"))
    res.check(len(ms) >= 2, "T13.ldm-state", "tables-zeroed", rf.loc, "LDM hash table and bucket offsets are zeroed", "LDM tables not zeroed")
    res.need("T13.ldm-state", 5)
    # the reset is on every path that starts a frame
    bg = prog.fn("ZSTD_compressBegin_internal")
    calls = bg.call_roots(("ZSTD_resetCCtx_internal", "ZSTD_resetCCtx_usingCDict"))
    res.check(len(calls) == 2 and bg.must_pass(via_roots=calls, targets=[t for t in reset.success_returns(bg) if t not in calls]), R, "compressBegin:reset-on-every-path", bg.loc,
              "every frame start passes the context reset", "a frame can start without the context reset")
    u = prog.fn("ZSTD_resetCCtx_usingCDict")
    calls = u.call_roots(("ZSTD_resetCCtx_byAttachingCDict", "ZSTD_resetCCtx_byCopyingCDict"))
    res.check(len(calls) == 2 and u.must_pass(via_roots=calls, targets=[u.exit_node()]), R, "usingCDict:attach-or-copy", u.loc, "either attach or copy", "neither")
    for name in ("ZSTD_resetCCtx_byAttachingCDict", "ZSTD_resetCCtx_byCopyingCDict"):
        g = prog.fn(name)
        c = g.call_roots("ZSTD_resetCCtx_internal")
        res.check(len(c) == 1 and g.must_pass(via_roots=c, targets=reset.success_returns(g)), R, name + ":full-reset-first", g.loc, "starts from the full context reset", "CDict reset skips the context reset")


def cctx_stream(prog, res):
    R = "T13.cctx-stream-session"
    ops = [prog.fn(n) for n in ("ZSTD_compressStream_generic", "ZSTD_compressStream2", "ZSTD_setBufferExpectations")]
    rf = prog.fn("ZSTD_CCtx_init_compressStream2")
    mt = cond_edges(rf, lambda c: c.get("k") == "bin" and c["op"] == ">" and any(y.get("f") == "nbWorkers" for y in walk(c)), "true")
    st_only = ("inBuffPos", "inToCompress", "inBuffTarget", "outBuffContentSize", "outBuffFlushedSize", "frameEnded")
    persist = dict(CCTX_CONFIG)
    persist.update({("streamStage",): "ZSTD_CCtx_reset (below)", ("stableIn_notConsumed",): "ZSTD_CCtx_reset (below); consumed by the first real compression call",
                    ("expectedInBuffer",): "set by ZSTD_setBufferExpectations right after initialisation (below)",
                    ("expectedOutBufferSize",): "set by ZSTD_setBufferExpectations right after initialisation (below)"})
    res.check(bool(mt), R, "init:mt-branch", rf.loc, "multithreaded branch identified", "nbWorkers branch vanished")
    st = cond_edges(rf, lambda c: c.get("k") == "bin" and c["op"] == ">" and any(y.get("f") == "nbWorkers" for y in walk(c)), "false")
    bgn = rf.call_roots("ZSTD_compressBegin_internal")
    res.check(len(bgn) == 1 and rf.must_pass(via_roots=bgn, via_edges=mt, targets=reset.success_returns(rf)), R, "init:single-thread-path-begins-frame", rf.loc,
              "the single-threaded path runs ZSTD_compressBegin_internal (frame-session reset)", "single-threaded initialisation skips the frame reset")
    skip = {(f,): mt for f in st_only}
    skip.update({("consumedSrcSize",): st, ("producedCSize",): st})    # single-threaded: reset by ZSTD_resetCCtx_internal via compressBegin (instance above)
    reset.reset_completeness(prog, res, R, "ZSTD_CCtx_s", ops, rf, [], persist, 8, skip_edges=skip)
    cr = prog.fn("ZSTD_CCtx_reset")
    sess = cond_edges(cr, lambda c: any(y.get("n") == "ZSTD_reset_session_only" for y in walk(c)), "true")
    # edges into the session block: the || has two true edges
    w = reset.written_paths(cr, "ZSTD_CCtx_s")
    starts = sorted({(e[1], 0) for e in sess})
    for fld in ("streamStage", "pledgedSrcSizePlusOne", "stableIn_notConsumed"):
        sites = [(b, i) for b, i, _ in w.get((fld,), [])]
        ok = bool(sites) and bool(sess)
        if ok:
            # every path from the session edge to the function's exit executes the write (an earlier version followed straight-line
            # blocks only and alarmed when the repaired ZSTD_CCtx_reset first waits for the worker jobs under an `if`)
            ok = all(cr.must_pass(via_roots=sites, starts=[(e[1], 0)], targets=[cr.exit_node()] + [(b, i) for b, i, r in cr.returns()]) for e in sess)
        res.check(ok, R, "CCtx_reset:" + fld, cr.loc, "a session reset re-establishes " + fld,
                  "ZSTD_CCtx_reset(session) leaves `%s` of the abandoned session in place" % fld)
    s2 = prog.fn("ZSTD_compressStream2")
    init = s2.call_roots("ZSTD_CCtx_init_compressStream2")
    sbe = s2.call_roots("ZSTD_setBufferExpectations")
    chk = s2.call_roots("ZSTD_checkBufferStability")
    ok = len(init) == 1 and bool(chk) and s2.must_pass(via_roots=sbe, starts=[(init[0][0], init[0][1] + 1)], targets=chk)
    res.check(ok, R, "compressStream2:expectations-after-init", s2.loc, "buffer expectations are set between initialisation and the first stability check",
              "stability check can compare against the previous session's buffers")


def f_reach(f, edge, blocks):
    """does the target block of `edge` lead (without leaving the function) to one of `blocks`
    before any return — here simply: is the edge target one of them or a straight-line
    predecessor of it."""
    seen, todo = set(), [edge[1]]
    while todo:
        b = todo.pop()
        if b in seen or b is None:
            continue
        seen.add(b)
        if b in blocks:
            return True
        succ = [s for s in f.blocks[b]["succ"] if s is not None]
        if len(succ) == 1:
            todo.append(succ[0])
    return False


def constructors_agree(prog, res):
    """T9: every function that zero-fills a whole ZSTD_CCtx establishes the default parameters
    before it hands the context out (a zero-filled parameter block is not the default one:
    contentSizeFlag defaults to 1)."""
    R = "T9.constructors-agree"
    size = prog.record("ZSTD_CCtx_s")["size"]
    n = 0
    for f in prog.fns_in("lib/compress/zstd_compress.c"):
        ms = []
        for b, i, c in f.calls(("memset", "__builtin_memset")):
            a0 = strip_casts(c["a"][0])
            if const_val(c["a"][2]) == size and a0 is not None and a0.get("k") == "ref" and "ZSTD_CCtx" in (a0.get("t") or ""):
                ms.append((b, i))
        if not ms:
            continue
        n += 1
        init = f.call_roots(("ZSTD_CCtx_reset", "ZSTD_CCtxParams_reset", "ZSTD_CCtxParams_init"))
        rets = [(b, i) for b, i, r in f.returns() if not (r.get("e") is not None and const_val(r["e"]) == 0)] or [f.exit_node()]
        ok = bool(init) and f.must_pass(via_roots=init, starts=[(b, i + 1) for b, i in ms], targets=rets)
        res.check(ok, R, f.name + ":defaults-after-zero-fill", f.loc, "the zero-filled context gets the default parameters on every path to a successful return",
                  "%s zero-fills a ZSTD_CCtx and can return it without establishing the default parameters: the same calls "
                  "then produce different output on this kind of context" % f.name)
    res.check(n >= 2, R, "constructors-found", "lib/compress/zstd_compress.c", "%d zero-filling constructors (heap and static)" % n, "constructors vanished")
    res.need(R, 3)


WRITE_ONLY_OK = {
    "ZSTD_Trace": "record handed to the tracing hook (output only)",
    "ZSTD_frameProgression": "record returned to the caller (output only)",
    ("ZSTD_Sequence", "rep"): "output field of the sequence extraction API, documented as unused",
    ("ZSTD_cwksp", "isStatic"): "read by assertions only (debug builds)",
    ("DTableDesc", "tableType"): "selects the X1 / X2 Huffman decoder; not read when only one variant is compiled (HUF_FORCE_DECOMPRESS_X1/X2)",
    ("seqStore_t", "maxNbLit"): "read by assertions only (debug builds)",
    ("COVER_ctx_t", "nbTestSamples"): "informational; the trainers recompute the test range from nbTrainSamples",
    ("FASTCOVER_ctx_t", "nbTestSamples"): "informational; the trainers recompute the test range from nbTrainSamples",
    ("ZSTD_seqSymbol_header", "fastMode"): "table header field kept for layout compatibility; decoders use tableLog only",
    ("offsetCount_t", "offset"): "element moved as a whole by the insertion sort; read through struct copies",
    ("rsyncState_t", "hash"): "initialised for symmetry; the rolling hash is recomputed from the buffer on every call",
    ("seqStoreSplits", "splitLocations"): "array filled through the pointer and consumed by the caller through its own alias",
}


def no_write_only_state(prog, res):
    """T13: a field of library state that some function stores into is read somewhere (in the analysed configuration).
    A store nobody reads is a forgotten use - the shape left behind when a refactor stops passing an attribute on."""
    R = "T13.no-write-only-field"
    W, Rd = {}, set()
    for f in prog.all_functions():
        if not f.file.startswith("lib/"):
            continue
        wr_ids = set()
        for b, i, r in f.roots():
            for x in walk(r):
                if x.get("k") == "asg":
                    l = strip_casts(x["lhs"])
                    while l is not None and l.get("k") == "idx":
                        l = strip_casts(l["b"])
                    if l is not None and l.get("k") == "mem" and l.get("rec"):
                        W.setdefault((l["rec"], l["f"]), f)
                        if x.get("op") == "=":
                            wr_ids.add(id(l))
        for b, i, r in f.roots():
            for y in walk(r):
                if y.get("k") == "mem" and y.get("rec") and id(y) not in wr_ids:
                    Rd.add((y["rec"], y["f"]))
    dead = sorted(k for k in W if k not in Rd)
    for k in dead:
        why = WRITE_ONLY_OK.get(k) or WRITE_ONLY_OK.get(k[0])
        f = W[k]
        if why:
            res.ok(R, "%s.%s" % k, f.loc, "write-only by design: " + why)
        else:
            res.bad(R, "%s.%s" % k, f.loc, "field %s.%s is stored (in %s) but never read anywhere in the library: an attribute that used to be passed on is now ignored" % (k[0], k[1], f.name))
    res.check(len(W) > 400, R, "fields-scanned", "lib/", "%d written fields scanned, %d write-only (all on the reasoned list)" % (len(W), len(dead)), "field scan suspiciously small (%d)" % len(W))
    res.need(R, 10)


CLOCKS = {"clock", "time", "gettimeofday", "clock_gettime", "rand", "random", "srand", "rand_r", "getenv", "secure_getenv", "getpid", "gettid",
          "pthread_self", "UTIL_getTime", "UTIL_clockSpanMicro", "timespec_get", "GetCurrentClockTimeMicroseconds", "drand48", "lrand48", "arc4random"}


def purity(prog, res):
    R = "T14.purity"
    entries = ["ZSTD_compress", "ZSTD_compressCCtx", "ZSTD_compress2", "ZSTD_compressStream2", "ZSTD_compressStream", "ZSTD_endStream", "ZSTD_flushStream",
               "ZSTD_compress_usingDict", "ZSTD_compress_usingCDict", "ZSTD_compressSequences", "ZSTD_compressBegin", "ZSTD_compressContinue", "ZSTD_compressEnd",
               "ZSTD_compressBlock", "ZSTDMT_compressStream_generic", "ZSTDMT_compressionJob", "ZSTDMT_initCStream_internal"]
    seen, todo = {}, []
    for e in entries:
        if prog.has_fn(e):
            seen[e] = None
            todo.append(e)
    res.check(len(todo) >= 14, R, "entries", "lib/zstd.h", "%d compression entry points" % len(todo), "entry points vanished")
    while todo:
        n = todo.pop()
        f = prog.fn(n)
        for b, i, c in f.calls(None):
            cn = c.get("c")
            if not cn or cn in seen:
                continue
            seen[cn] = n
            if prog.has_fn(cn):
                todo.append(cn)
        # indirect calls through the block-compressor / pool function tables: add every address-taken function of lib/compress
    for n in prog.address_taken():
        if n not in seen and prog.has_fn(n) and prog.fn(n).file.startswith("lib/compress"):
            seen[n] = "<function table>"
            todo.append(n)
    while todo:
        n = todo.pop()
        for b, i, c in prog.fn(n).calls(None):
            cn = c.get("c")
            if cn and cn not in seen:
                seen[cn] = n
                if prog.has_fn(cn):
                    todo.append(cn)
    bad = sorted(set(seen) & CLOCKS)
    for b in bad:
        chain, cur = [b], seen[b]
        while cur and len(chain) < 12:
            chain.append(cur)
            cur = seen.get(cur)
        res.bad(R, "reaches:" + b, "lib/compress", "compression reaches `%s` via %s: output may depend on time/randomness/environment" % (b, " <- ".join(chain)))
    if not bad:
        res.ok(R, "no-impure-callee", "lib/compress", "%d functions reachable from %d entry points; none is a clock, PRNG, environment or thread-id source" % (len(seen), len(entries)))
    res.check(len(seen) > 300, R, "reach-size", "lib/compress", "call graph closure has %d functions" % len(seen), "call graph closure suspiciously small (%d)" % len(seen))
    # pointer -> integer conversions in lib/compress: the value of an address may only be used for alignment / differences
    n_conv, offenders = 0, []
    ALLOWED_FILES = ("lib/compress/zstd_cwksp.h",)
    for name, fs in prog.functions.items():
        f = fs[0]
        if not f.file.startswith("lib/compress") or name not in seen:
            continue
        for b, i, r in f.roots():
            for x in walk(r):
                if x.get("k") == "cast" and x.get("ck") == "PointerToIntegral":
                    n_conv += 1
                    if f.file in ALLOWED_FILES:
                        continue
                    offenders.append((f, x))
    P2I_OK = {
        "ZSTD_window_update": "never reached: no pointer-to-integer cast expected",
    }
    for f, x in offenders:
        # accepted idioms: masked by an alignment constant (`& (align-1)`), or inside an assert
        par_ok = "assert" in x.get("m", []) or any(m in ("assert", "ZSTD_isAligned", "DEBUGLOG", "RAWLOG") for m in x.get("m", []))
        res.check(par_ok or alignment_use(f, x), R, "ptr-to-int:%s@%s" % (f.name, x.get("l")), "%s:%s" % (f.file, x.get("l")),
                  "address used for an alignment test only", "the numeric value of an address flows into compression state in %s: output may depend on buffer placement" % f.name)
    res.count(R, n_conv)
    res.need(R, 3)


def alignment_use(f, cast):
    """is the pointer-to-integer cast an operand of `& const` (alignment test)?"""
    for b, i, r in f.roots():
        for y in walk(r):
            if y.get("k") == "bin" and y.get("op") in ("&", "%"):
                for side, other in (("lhs", "rhs"), ("rhs", "lhs")):
                    if any(z is cast for z in walk(y[side])) and (const_val(y[other]) is not None or f.sig_anchors(y[other])):
                        return True
    return False


def mt_boundaries(prog, res):
    R = "T14.mt-job-boundaries"
    f = prog.fn("ZSTDMT_createCompressionJob")
    # the job's src size derives from inBuff.filled / prefix / srcSize parameter only
    w = [x for b, i, x in f.events(lambda y: y.get("k") == "asg") if reset.field_path_from(x["lhs"], "ZSTDMT_CCtx_s") and
         reset.field_path_from(x["lhs"], "ZSTDMT_CCtx_s")[-2:] == ("src", "size") or strip_casts(x["lhs"]).get("f") == "size" and any(y.get("f") == "src" for y in walk(x["lhs"]))]
    res.check(bool(w), R, "job-src-size-assigned", f.loc, "job source size assignment found", "anchor vanished")
    WORKER_WRITTEN = {"consumed", "cSize", "dstBuff", "nextJobID_worker"}   # job fields written by worker threads (C11's T1 set for ZSTDMT_jobDescription)
    for x in w:
        an = f.anchors(x["rhs"], depth=3)
        flds = {a[2:] for a in an if a.startswith("f:")}
        res.check(not (flds & WORKER_WRITTEN), R, "job-size-free-of-worker-state@%s" % x.get("l"), "%s:%s" % (f.file, x.get("l")),
                  "job size computed from %s" % sorted(flds), "job size depends on worker-written field(s) %s: boundaries would follow scheduling" % sorted(flds & WORKER_WRITTEN))
    s = prog.fn("findSynchronizationPoint")
    flds = set()
    for b, i, r in s.roots():
        for y in walk(r):
            if y.get("k") == "mem":
                flds.add(y["f"])
    res.check(not (flds & WORKER_WRITTEN) and "rsync" in flds, R, "sync-point-free-of-worker-state", s.loc,
              "rsync split point computed from input bytes and rsync state only (%d fields read)" % len(flds), "sync point reads worker state")
    # a sync point that could not be flushed (job table full: ZSTDMT_createCompressionJob returns without creating the job) is
    # re-detected from the internal buffer alone on the next call, before any new input is scanned
    hits = []
    for bid, cond, t, fl in s.branches():
        c = strip_casts(s.resolve_x(cond))
        if c is not None and c.get("k") == "bin" and c["op"] == "==" and any(y.get("k") == "bin" and y.get("op") == "&" for y in walk(c)) and "f:hitMask" in s.anchors(c, depth=2):
            hits.append((bid, t))
    zero_load = [(b, i) for b, i, x in s.events(lambda y: y.get("k") == "asg") if strip_casts(x["lhs"]).get("f") == "toLoad" and const_val(x["rhs"]) == 0]
    rot = s.call_roots("ZSTD_rollingHash_rotate")
    pre = [h for h in hits if zero_load and s.must_pass(via_edges={h}, targets=zero_load)]
    okp = len(hits) >= 2 and bool(zero_load) and bool(pre) and bool(rot) and not any(s.must_pass(via_roots=rot, targets=[z]) for z in zero_load)
    res.check(okp, R, "pending-sync-point-redetected", s.loc, "a hit on the hash of the buffered tail (before scanning new input) yields toLoad = 0, flush = 1",
              "a sync point left pending because the job table was full is no longer re-detected: the job is cut later, so boundaries depend on how fast the caller drains output and on the worker count")
    g = prog.fn("ZSTDMT_compressStream_generic")
    # the decision to create a job: filled >= targetSectionSize, flush/end, or sync point; not on job completion state
    cj = g.call_roots("ZSTDMT_createCompressionJob")
    res.check(bool(cj), R, "createJob-call", g.loc, "job creation site found", "anchor vanished")
    conds = set()
    for bid, cond, t, fl in g.branches():
        c = g.resolve_x(cond)
        conds |= {y["f"] for y in walk(c) if y.get("k") == "mem"}
    res.check(bool(conds) and not (conds & WORKER_WRITTEN), R, "job-creation-condition", g.loc, "job creation gated by %s" % sorted(conds),
              "job creation depends on worker state %s" % sorted(conds & WORKER_WRITTEN))
    # target section size is a function of parameters only
    i = prog.fn("ZSTDMT_initCStream_internal")
    a = [x for b, j, x in i.events(lambda y: y.get("k") == "asg") if strip_casts(x["lhs"]).get("f") == "targetSectionSize"]
    ok = bool(a)
    for x in a:
        fl2 = {q[2:] for q in i.anchors(x["rhs"], depth=3) if q.startswith("f:")}
        ok = ok and not (fl2 & (WORKER_WRITTEN | {"nbWorkers"}))
    res.check(ok, R, "targetSectionSize-from-params", i.loc, "section size derives from jobSize / windowLog / overlap parameters, never from the worker count",
              "job section size depends on the number of workers or on worker state")
    res.need(R, 6)


def dictionary_validity_history_independent(prog, res):
    """T14: whether the dictionary is still usable is a function of the frame (bytes consumed so far vs window size), not of
    the context's past.  Index overflow correction, however, is triggered by ABSOLUTE table indexes, which keep growing
    across frames of a reused context.  No statement that invalidates the match state's dictionary (loadedDictEnd = 0,
    dictMatchState = NULL) may be control-dependent on ZSTD_window_needOverflowCorrection().  (The LDM state's sibling
    statement in zstd_ldm.c has the same shape; its effect cannot be separated from this one through the public API and it is
    not claimed.)"""
    R = "T14.dictionary-validity-history-independent"
    n = 0
    for f in prog.all_functions():
        if not f.file.startswith("lib/compress/"):
            continue
        trig = [(bid, t) for bid, cond, t, fl in f.branches()
                if any(is_call(y, "ZSTD_window_needOverflowCorrection") for y in f.walk_resolved(f.resolve_x(cond)))]
        if not trig:
            continue
        n += 1
        drops = []
        for b, i, x in f.events(lambda y: y.get("k") == "asg" and y.get("op") == "="):
            l = strip_casts(x["lhs"])
            if l.get("k") == "mem" and l.get("rec") == "ZSTD_matchState_t" and l.get("f") in ("loadedDictEnd", "dictMatchState") and const_val(x["rhs"]) == 0:
                if all(f.must_pass(via_edges=[e], targets=[(b, i)]) for e in trig[:1]) or any(f.must_pass(via_edges=[e], targets=[(b, i)]) for e in trig):
                    drops.append(l["f"])
        res.check(not drops, R, f.name, f.loc, "overflow correction does not invalidate the dictionary",
                  "%s invalidates the match state's dictionary (%s) when ZSTD_window_needOverflowCorrection() fires: the trigger depends on absolute "
                  "indexes, i.e. on what the context compressed before, so the same calls give another frame on a long-used context" % (f.name, ", ".join(sorted(set(drops)))))
    res.check(n >= 1, R, "sites", "lib/compress", "%d function(s) test ZSTD_window_needOverflowCorrection" % n, "no user of ZSTD_window_needOverflowCorrection found")
    res.need(R, 2)


def output_independent_of_room(prog, res):
    """T14: the frame must not depend on the sizes of the output buffers.  Two shapes make it depend on them:
    (a) a comparison of a result with ERROR(dstSize_tooSmall) whose matching side goes on WITHOUT returning that error: the
        lack of room is turned into a compression decision (store the block raw); with ample room the same block is emitted
        compressed;
    (b) in the streaming compressor, a branch on the room left in the output (`oend - op` against ZSTD_compressBound) that
        chooses between compressing directly from the caller's input and going through the input ring: the two routes cut
        the blocks at different places."""
    R = "T14.output-independent-of-room"
    n = 0
    for f in prog.all_functions():
        if not f.file.startswith("lib/compress/"):
            continue
        for bid, cond, t, fl in f.branches():
            c = f.resolve_x(cond)
            tests = [y for y in f.walk_resolved(c) if y.get("k") == "bin" and y.get("op") in ("==", "!=") and
                     any(err_name(z) == "dstSize_tooSmall" for z in f.walk_resolved(y))]
            if not tests:
                continue
            n += 1
            eq = tests[0]["op"] == "=="
            side = t if eq else fl          # the side on which the result IS dstSize_tooSmall
            reach = f.flow([(side, 0)])
            # does that side lead to a return that is not the error itself?  (a literal 0, or a fall-through to later code)
            cmpvars = {y.get("n") for x in (tests[0]["lhs"], tests[0]["rhs"]) for y in f.walk_resolved(x) if y.get("k") == "ref" and y.get("rk") in ("l", "sl", "p")}

            def forwards(r):
                e = strip_casts(f.resolve_x(r["e"]))
                return e is not None and ((e.get("k") == "ref" and e.get("n") in cmpvars) or any(err_name(z) == "dstSize_tooSmall" for z in f.walk_resolved(e)))
            # only the direct shape is claimed: the matching side returns the literal 0 that means "store this block raw".  (The
            # super-block site falls through to the common raw-block code instead; no capacity-dependent frame could be produced
            # through it in 3000 trials with ZSTD_c_targetCBlockSize, so it is counted but not reported.)
            goes_on = any((b, i) in reach and not forwards(r) and const_val(strip_casts(f.resolve_x(r["e"]))) == 0 for b, i, r in f.returns() if r.get("e") is not None)
            res.check(not goes_on, R, "%s:capacity-error-becomes-a-decision" % f.name, "%s:%s" % (f.file, c.get("l") or f.line),
                      "a lack of output room is reported, not turned into a decision",
                      "%s compares a result with ERROR(dstSize_tooSmall) and goes on when it matches (the block is stored raw instead): the frame depends on the "
                      "size of the destination - ZSTD_compress2 of 38 bytes at level 6 gives a 44-byte frame in a large buffer and a different, valid 47-byte "
                      "frame when dstCapacity is 47..51" % f.name)
    res.check(n >= 2, R, "sites", "lib/compress", "%d comparison(s) with ERROR(dstSize_tooSmall)" % n, "comparisons with ERROR(dstSize_tooSmall) found: %d" % n)
    g = prog.fn("ZSTD_compressStream_generic")
    direct = g.call_roots("ZSTD_compressEnd_public")
    room = [(bid, t) for bid, cond, t, fl in g.branches()
            if any(is_call(y, "ZSTD_compressBound") for y in g.walk_resolved(g.resolve_x(cond)))]
    dep = [e for e in room if any(d in g.flow([(e[1], 0)]) for d in direct)]
    res.check(bool(direct) and not dep, R, "ZSTD_compressStream_generic:route-chosen-by-output-room", g.loc, "the compression route does not depend on the output room",
              "ZSTD_compressStream_generic compresses directly from the caller's input when the output has room for ZSTD_compressBound(remaining input) and through "
              "its input ring otherwise: level 1, windowLog 10, 2048 bytes e_continue then 37952 bytes e_end gives 12967 bytes with ample output room and 12966 "
              "bytes with 1000-byte output buffers")
    res.need(R, 4)


def row_hash_is_salted(prog, res):
    """T9: the row-based match finder files positions under a SALTED hash (the salt changes with the context's history so that
    stale tags cannot match); every hash it computes for its own table must be salted, or positions inserted through one call
    site are looked up under another mapping and the result depends on the salt, i.e. on what the context compressed before.
    Functions that touch the tag table may only hash through ZSTD_hashPtrSalted (dictionary-side tables of other layouts excepted:
    the argument is then the dictionary match state's / dedicated search's hashLog)."""
    R = "T9.row-hash-salted"
    n = 0
    for f in prog.fns_in("compress/zstd_lazy.c"):
        if not any(y.get("k") == "mem" and y.get("f") in ("tagTable", "hashSalt") for _, _, r in f.roots() for y in walk(r)):
            continue
        salted = [c for b, i, c in f.calls("ZSTD_hashPtrSalted")]
        if not salted and not f.calls("ZSTD_hashPtr"):
            continue
        n += 1
        plain = []
        for b, i, c in f.calls("ZSTD_hashPtr"):
            a1 = f.anchors(c["a"][1], depth=3)
            if any(x in a1 for x in ("f:dictMatchState",)) or any("dds" in (y.get("n") or "").lower() or "dms" in (y.get("n") or "").lower() for y in f.walk_deep(c["a"][1])):
                continue
            plain.append(c.get("l"))
        res.check(not plain, R, f.name, f.loc, "%d salted hash computation(s), no unsalted one for the row table" % len(salted),
                  "%s computes an unsalted ZSTD_hashPtr (line %s) next to its salted ones: positions handled through that call site live under another "
                  "row/tag mapping, and which entries they displace depends on the salt, i.e. on the context's history and on the worker that ran the job" % (f.name, plain))
    res.check(n >= 3, R, "sites", "lib/compress/zstd_lazy.c", "%d row-finder functions hash with the salt" % n, "row-finder functions using the salted hash: %d" % n)
    res.need(R, 4)


def run(tier):
    res = Result("C07", tier)
    tus, info = extract(["compress", "common", "decompress", "dictBuilder"])
    prog = Program(tus)
    res.info = info
    no_write_only_state(prog, res)
    matchstate_reset(prog, res)
    window_rules(prog, res)
    opt_first_block(prog, res)
    block_state(prog, res)
    cctx_frame(prog, res)
    cctx_stream(prog, res)
    scoped_collector(prog, res)
    constructors_agree(prog, res)
    cleanliness(prog, res)
    per_block_refresh(prog, res)
    salt_rule(prog, res)
    purity(prog, res)
    mt_boundaries(prog, res)
    from .C15 import cycle_log_callers        # shared clause: what overflow correction does depends only on the parameters' chainLog
    cycle_log_callers(prog, res)
    row_hash_is_salted(prog, res)
    dictionary_validity_history_independent(prog, res)
    output_independent_of_room(prog, res)
    # a session reset drops what describes the caller's buffers of the abandoned session (re-submitted by flushStream/endStream)
    rs = prog.fn("ZSTD_CCtx_reset")
    wiped = any((x.get("k") == "call" and x.get("c") in ("memset", "__builtin_memset") and any(y.get("f") == "expectedInBuffer" for y in walk(x["a"][0]))) or
                (x.get("k") == "asg" and any(y.get("f") == "expectedInBuffer" for y in walk(x["lhs"]))) for _, _, r in rs.roots() for x in walk(r))
    res.check(wiped, "T13.cctx-stream-session", "ZSTD_CCtx_reset:expectedInBuffer", rs.loc, "the recorded stable input buffer is forgotten by a session reset",
              "ZSTD_CCtx_reset keeps cctx->expectedInBuffer: ZSTD_endStream/ZSTD_flushStream of the next session re-submit the abandoned session's buffer "
              "(compressing stale bytes out of memory the caller may have released)")
    return res.finish(
        explanation="No field of the match state, window, optimal-parser statistics, compressed-block state, CCtx frame session "
                    "or CCtx stream session that operation code writes survives a reset unless it is on a reasoned exception "
                    "list; workspace tables are cleaned or fully copied before use; per-block scratch is refreshed before it is "
                    "read; the row-hash salt is a bijection on hash values; compression reaches no clock/PRNG/environment "
                    "source and uses addresses only for alignment tests; multithreaded job boundaries derive from byte counts "
                    "and parameters, never from worker-written state.",
        not_decided="bit-identical output of two executions differing in history, placement, capacity or schedule (a 2-run "
                    "property over values); that the reasoned exceptions (hash salt, forceNonContiguous) are value-neutral",
        assumptions=["libc and xxhash are deterministic"])
