"""C13 — allocation failure anywhere: clean error, no crash, no leak.
Static clauses (T5): who may allocate; every allocation result is NULL-tested before it is
dereferenced; locals holding an allocation are released/returned/handed over on every exit;
every owned field is released by its destructor; destructors tolerate partially built
objects; the object's allocator is recorded before its destructor can run; public
constructors validate the allocator pair; the decoder forgets stale buffer sizes before it
re-allocates.  Not decided: that the context works again after the failure."""
from ..facts import extract
from ..ir import Program, walk, is_call, strip_casts, const_val
from ..report import Result
from ..rules import alloc, guards
from ..rules.guards import Want

LIB = ("lib/common/", "lib/compress/", "lib/decompress/")
SCOPE = LIB + ("lib/dictBuilder/", "contrib/seekable_format/", "lib/legacy/")

NULL_EXC = {}
REL_EXC = {
    ("divbwt", "B"): "freed under `A == NULL`, exactly the condition under which it was allocated (divsufsort helper unused by zstd)",
}
TRANSFER = ("ZSTD_cwksp_init", "POOL_add", "COVER_tryParameters", "FASTCOVER_tryParameters")

# record -> (destructor, helpers the destructor delegates the object to, not-owned fields)
DESTRUCTORS = {
    "ZSTD_CCtx_s": ("ZSTD_freeCCtxContent", ["ZSTD_clearAllDicts", "ZSTD_cwksp_free", "ZSTD_freeCCtx"], {
        "cdict": "reference to a caller-owned or localDict-owned dictionary", "pool": "caller-owned thread pool",
        "workspace": "released through ZSTD_cwksp_free(&cctx->workspace)", "entropyWorkspace": "inside the workspace",
        "tmpWorkspace": "inside the workspace", "inBuff": "inside the workspace", "outBuff": "inside the workspace",
        "extSeqBuf": "inside the workspace"}),
    "ZSTD_DCtx_s": ("ZSTD_freeDCtx", ["ZSTD_clearDict", "ZSTD_freeDDictHashSet"], {
        "ddict": "alias of ddictLocal or caller-owned", "outBuff": "second half of the inBuff allocation"}),
    "ZSTDMT_CCtx_s": ("ZSTDMT_freeCCtx", ["ZSTDMT_serialState_free", "ZSTDMT_releaseAllJobResources"], {
        "cdict": "alias of cdictLocal or caller-owned", "factory": "freed unless caller-provided (POOL_free)"}),
    "POOL_ctx_s": ("POOL_free", [], {}),
    "ZSTDMT_bufferPool_s": ("ZSTDMT_freeBufferPool", [], {}),
    "ZSTDMT_CCtxPool": ("ZSTDMT_freeCCtxPool", [], {}),
    "ZSTD_DDictHashSet": ("ZSTD_freeDDictHashSet", [], {}),
    "ZSTD_CDict_s": ("ZSTD_freeCDict", ["ZSTD_cwksp_free"], {"dictContent": "inside the workspace or caller-owned"}),
    "ZSTD_DDict_s": ("ZSTD_freeDDict", [], {"dictContent": "alias of dictBuffer or caller-owned"}),
    "ZSTD_seekable_s": ("ZSTD_seekable_free", ["ZSTD_seekTable_free"], {}),
}
ALLOC_LIKE = ("ZSTD_createCCtx_advanced", "ZSTD_createCDict_advanced", "ZSTD_createCDict_advanced2", "ZSTD_createDDict_advanced",
              "POOL_create_advanced", "ZSTDMT_createBufferPool", "ZSTDMT_createCCtxPool", "ZSTDMT_createSeqPool", "ZSTDMT_createJobsTable",
              "ZSTDMT_createCCtx_advanced", "ZSTD_createDDictHashSet", "ZSTD_createDStream", "ZSTD_createCStream", "ZSTDMT_expandBufferPool",
              "ZSTDMT_expandCCtxPool", "ZSTDMT_expandSeqPool")
NULL_TOLERANT = {
    "ZSTDMT_CCtx_s": ("ZSTDMT_freeCCtx", ["ZSTDMT_releaseAllJobResources"], ["jobs", "bufPool", "cctxPool", "seqPool", "factory"]),
    "POOL_ctx_s": ("POOL_free", ["POOL_join"], ["queue"]),
    "ZSTDMT_bufferPool_s": ("ZSTDMT_freeBufferPool", [], ["buffers"]),
    "ZSTDMT_CCtxPool": ("ZSTDMT_freeCCtxPool", [], ["cctxs"]),
    "ZSTD_DDictHashSet": ("ZSTD_freeDDictHashSet", [], ["ddictPtrTable"]),
}
CTORS = [
    ("ZSTDMT_createBufferPool", "cMem", ("ZSTDMT_freeBufferPool",)),
    ("ZSTDMT_createCCtxPool", "cMem", ("ZSTDMT_freeCCtxPool",)),
    ("POOL_create_advanced", "customMem", ("POOL_free",)),
    ("ZSTDMT_createCCtx_advanced_internal", "cMem", ("ZSTDMT_freeCCtx",)),
    ("ZSTD_createCCtx_advanced", "customMem", ("ZSTD_freeCCtx",)),
    ("ZSTD_createDDict_advanced", "cMem", ("ZSTD_freeDDict",)),
    ("ZSTD_createDCtx_internal", "customMem", ("ZSTD_freeDCtx",)),
]
PUBLIC_CTORS = ("ZSTD_createCCtx_advanced", "ZSTD_createCCtxParams_advanced", "ZSTD_createCDict_advanced2",
                "ZSTD_createDDict_advanced", "ZSTD_createDCtx_internal", "ZSTDMT_createCCtx_advanced_internal")


def who_may_allocate(prog, res):
    raw = ("malloc", "calloc", "realloc", "free")
    allowed = {"ZSTD_customMalloc", "ZSTD_customCalloc", "ZSTD_customFree",
               "XXH_malloc", "XXH_free"}   # xxhash.h state constructors, never called by zstd (checked below)
    bad = []
    n = 0
    for f in prog.all_functions():
        if not f.file.startswith(LIB):
            continue
        for b, i, c in f.calls(raw):
            n += 1
            if f.name not in allowed:
                bad.append("%s:%s calls %s" % (f.name, c.get("l"), c["c"]))
    res.check(not bad and n >= 3, "T5a.who-may-allocate", "lib/{common,compress,decompress}", "lib/common/allocations.h",
              "raw malloc/calloc/free only inside the ZSTD_custom* shims (%d sites)" % n, "; ".join(bad[:5]) or "shim calls not found")
    xx = [f.name for f in prog.all_functions() if f.file.startswith(LIB) and not f.file.endswith("xxhash.h")
          and ({"ZSTD_XXH64_createState", "ZSTD_XXH32_createState", "XXH_malloc"} & f.callees())]
    res.check(not xx, "T5a.who-may-allocate", "xxhash-heap-states-unused", "lib/common/xxhash.h", "zstd never uses the heap-allocating xxhash API",
              "heap-allocating xxhash API now used by %s" % xx)
    # positive example: dictBuilder does call malloc directly (so the matcher is alive)
    pos = sum(1 for f in prog.all_functions() if f.file.startswith("lib/dictBuilder/") for _ in f.calls(("malloc",)))
    res.check(pos >= 10, "T5a.who-may-allocate", "positive-example:dictBuilder", "lib/dictBuilder", "%d direct malloc calls seen" % pos,
              "matcher no longer sees the direct malloc calls of lib/dictBuilder")
    # the literal default allocator is used by the non-_advanced convenience constructors only
    users = sorted({f.name for f in prog.all_functions() if f.file.startswith(LIB)
                    for _, _, x in f.events(lambda y: y.get("k") == "ref" and y.get("n") == "ZSTD_defaultCMem")})
    ok = all(not u.endswith("_advanced") and not u.endswith("_advanced2") and not u.endswith("_internal") or u in
             ("ZSTD_initStaticCCtx",) for u in users)
    res.check(ok and users, "T5e.default-allocator", "ZSTD_defaultCMem-users", "lib", "only convenience constructors: %s" % ", ".join(users)[:200],
              "ZSTD_defaultCMem is used by an _advanced/_internal function: %s" % [u for u in users if u.endswith(("_advanced", "_internal"))])
    # ... and never by a function that is handed an object which records its own allocator: its allocations belong to that one
    typedefs = {"ZSTD_CCtx": "ZSTD_CCtx_s", "ZSTD_CStream": "ZSTD_CCtx_s", "ZSTD_DCtx": "ZSTD_DCtx_s", "ZSTD_DStream": "ZSTD_DCtx_s", "ZSTDMT_CCtx": "ZSTDMT_CCtx_s",
                "ZSTD_CDict": "ZSTD_CDict_s", "ZSTD_DDict": "ZSTD_DDict_s", "POOL_ctx": "POOL_ctx_s", "ZSTD_CCtx_params": "ZSTD_CCtx_params_s"}
    has_alloc = {n for n, r in prog.records.items() if any(x["n"] in ("customMem", "cMem") for x in r.get("fields", []))}
    bad = []
    for f in prog.all_functions():
        if not f.file.startswith(LIB) or f.name not in users:
            continue
        for prm in f.params:
            t = (prm.get("t") or "").replace("const", "").replace("struct", "").replace("*", "").strip()
            if typedefs.get(t, t) in has_alloc:
                bad.append("%s(%s %s)" % (f.name, t, prm.get("n")))
    res.check(not bad and len(has_alloc) >= 5, "T5e.default-allocator", "not-next-to-an-object-with-an-allocator", "lib",
              "no user of ZSTD_defaultCMem receives an object that records an allocator (%d such record types)" % len(has_alloc),
              "%s uses ZSTD_defaultCMem although it is handed an object that records the caller's allocator: that allocation by-passes it" % ", ".join(bad))


def allocator_pair_validated(prog, res):
    for name in PUBLIC_CTORS:
        f = prog.fn(name)
        has = False
        for bid, cond, t, fl in f.branches():
            c = strip_casts(f.resolve_x(cond))
            if c.get("k") == "bin" and c["op"] == "^":
                names = {y["f"] for y in walk(c) if y.get("k") == "mem"}
                has = has or {"customAlloc", "customFree"} <= names
        res.check(has, "T9.allocator-pair", name, f.loc, "(!customAlloc) ^ (!customFree) refused",
                  "%s no longer refuses a half-specified custom allocator" % name)


def decoder_realloc(prog, res):
    f = prog.fn("ZSTD_decompressStream")
    mallocs = [(b, i) for b, i, c in f.calls("ZSTD_customMalloc")]
    zin = f.find_roots(lambda x: x.get("k") == "asg" and strip_casts(x["lhs"]).get("f") == "inBuffSize" and const_val(x["rhs"]) == 0)
    zout = f.find_roots(lambda x: x.get("k") == "asg" and strip_casts(x["lhs"]).get("f") == "outBuffSize" and const_val(x["rhs"]) == 0)
    ok = len(mallocs) == 1 and bool(zin) and bool(zout) and f.must_pass(via_roots=zin, targets=mallocs) and f.must_pass(via_roots=zout, targets=mallocs)
    res.check(ok, "T3.stale-size", "ZSTD_decompressStream:sizes-zeroed-before-realloc", f.loc,
              "inBuffSize and outBuffSize are zeroed before the buffers are re-allocated",
              "the old buffer sizes survive a failed re-allocation: after a session reset a smaller frame skips "
              "allocation and writes through the freed/NULL buffer")
    g = prog.fn("ZSTD_resetCCtx_internal")
    fr = g.call_roots("ZSTD_cwksp_free")
    cr = g.call_roots("ZSTD_cwksp_create")
    ok = len(fr) == 1 and len(cr) == 1 and g.must_pass(via_roots=fr, targets=cr)
    res.check(ok, "T3.stale-size", "ZSTD_resetCCtx_internal:free-then-create", g.loc, "workspace freed (and zeroed) before it is re-created",
              "workspace re-created without freeing the old one first")
    h = prog.fn("ZSTD_cwksp_free")
    ms = [c for b, i, c in h.calls(("memset", "__builtin_memset"))]
    res.check(bool(ms), "T3.stale-size", "ZSTD_cwksp_free:zeroes-descriptor", h.loc, "workspace descriptor zeroed after free (no double free later)",
              "ZSTD_cwksp_free no longer zeroes the descriptor")


def legacy_stale_sizes(prog, res):
    """T3.stale-size for the four legacy streaming decoders (same clause as ZSTD_decompressStream's): a buffer size may not
    survive the failure of the allocation it describes - on the `buffer == NULL` edge the size is reset before the error
    return, or a retry on the same context finds the size large enough and copies into NULL."""
    R = "T3.stale-size"
    n = 0
    for f in prog.all_functions():
        if not f.file.startswith("lib/legacy/") or "decompressContinue" not in f.name or not f.name.startswith("ZBUFF"):
            continue
        for buf, size in (("inBuff", "inBuffSize"), ("outBuff", "outBuffSize")):
            nulls = guards.rel_edges(f, lambda a, _b=buf: strip_casts(a).get("k") == "mem" and strip_casts(a).get("f") == _b, "==",
                                     lambda b_: const_val(strip_casts(b_)) == 0, truth=True)
            if not nulls:
                continue
            n += 1
            zero = f.find_roots(lambda x, _s=size: x.get("k") == "asg" and strip_casts(x["lhs"]).get("f") == _s and const_val(x["rhs"]) == 0)
            rets = [(b, i) for b, i, r in f.returns()]
            ok = bool(zero) and f.must_pass(via_roots=zero, starts=[(e[1], 0) for e in nulls], targets=rets)
            res.check(ok, R, "%s:%s" % (f.name, size), f.loc, "%s is reset when the allocation of %s fails" % (size, buf),
                      "%s keeps %s after the allocation of %s failed: a retry on the same context skips the allocation and writes through NULL" % (f.name, size, buf))
    res.check(n >= 6, R, "legacy-sites", "lib/legacy", "%d legacy buffer allocations checked" % n, "legacy buffer allocations found: %d" % n)


def mt_resize_failure_atomic(prog, res):
    """T5h: ZSTDMT_resize replaces the job table and the three pools by larger ones.  The holders (mtctx fields) must never
    be left empty by a failed replacement: in every function of the resize family the replacement is CREATED before the old
    object is destroyed (no creator call is reachable after a destructor call), and ZSTDMT_resize stores a helper's result
    into the holder only after comparing it with NULL (no `holder = expand(holder)`)."""
    R = "T5h.replace-is-failure-atomic"
    if not prog.has_fn("ZSTDMT_resize"):
        return
    fam = set()
    todo = ["ZSTDMT_resize"]
    while todo:
        nme = todo.pop()
        if nme in fam or not prog.has_fn(nme):
            continue
        g = prog.fn(nme)
        if not g.file.endswith("zstdmt_compress.c"):
            continue
        if nme != "ZSTDMT_resize" and "expand" not in nme.lower():
            continue
        fam.add(nme)
        todo += list(g.callees())
    res.check(len(fam) >= 5, R, "family", prog.fn("ZSTDMT_resize").loc, "resize family: %s" % sorted(fam), "resize family shrank: %s" % sorted(fam))
    for nme in sorted(fam):
        g = prog.fn(nme)
        destroy = g.find_roots(lambda x: x.get("k") == "call" and (x.get("c") or "").startswith(("ZSTDMT_free", "ZSTD_customFree")))
        create = g.find_roots(lambda x: x.get("k") == "call" and (x.get("c") or "").startswith(("ZSTDMT_create", "ZSTD_customCalloc", "ZSTD_customMalloc")))
        if destroy and create:
            after = g.flow([(b, i + 1) for b, i in destroy])
            late = [t for t in create if t in after]
            res.check(not late, R, nme + ":create-before-destroy", g.loc, "the replacement is allocated before the old object is released",
                      "%s releases the old object before allocating its replacement: when that allocation fails the caller is left without "
                      "either, every later frame fails (or dereferences NULL) although memory is available again" % nme)
    r = prog.fn("ZSTDMT_resize")
    for b, i, x in r.events(lambda y: y.get("k") == "asg"):
        lhs = strip_casts(x["lhs"])
        if lhs.get("k") == "mem" and lhs.get("rec") == "ZSTDMT_CCtx_s" and any(is_call(y) and "expand" in (y.get("c") or "").lower() for y in r.walk_resolved(x["rhs"])):
            res.bad(R, "ZSTDMT_resize:%s" % lhs["f"], "%s:%s" % (r.file, x.get("l")),
                    "mtctx->%s is overwritten with the helper's result before it is compared with NULL: a failed expansion loses the pool" % lhs["f"])
    stores = [x for b, i, x in r.events(lambda y: y.get("k") == "asg") if strip_casts(x["lhs"]).get("rec") == "ZSTDMT_CCtx_s"]
    res.check(len(stores) >= 3, R, "ZSTDMT_resize:stores", r.loc, "%d holder updates, each from a NULL-checked local" % len(stores), "holder updates in ZSTDMT_resize: %d" % len(stores))
    res.need(R, 5)


def job_buffer_recorded(prog, res):
    """T5c for the worker: ZSTDMT_compressionJob takes its output buffer from the pool into a local; the job description is
    what ZSTDMT_releaseAllJobResources / ZSTD_freeCCtx walk.  Every path from the successful ZSTDMT_getBuffer to the end of
    the function must first store the buffer into the job (or release it): a failure in between would leave the block known
    to a dead local only."""
    R = "T5c.job-buffer-recorded"
    if not prog.has_fn("ZSTDMT_compressionJob"):
        return
    f = prog.fn("ZSTDMT_compressionJob")
    gets = [(b, i, x) for b, i, x in f.events(lambda y: y.get("k") == "asg") if any(is_call(z, "ZSTDMT_getBuffer") for z in walk(x["rhs"]))]
    res.check(len(gets) == 1, R, "site", f.loc, "one buffer acquisition", "buffer acquisitions in the worker: %d" % len(gets))
    if len(gets) != 1:
        return
    b, i, x = gets[0]
    loc = strip_casts(x["lhs"]).get("n")
    rec = f.find_roots(lambda y: y.get("k") == "asg" and strip_casts(y["lhs"]).get("f") == "dstBuff" and strip_casts(y["rhs"]).get("n") == loc)
    rel = f.find_roots(lambda y: y.get("k") == "call" and y.get("c") == "ZSTDMT_releaseBuffer" and any(strip_casts(a).get("n") == loc for a in y.get("a", [])))
    # the only legitimate exit before recording is the one taken when the acquisition itself failed (start == NULL)
    nullfail = guards.rel_edges(f, lambda a: any(y.get("f") == "start" for y in f.walk_resolved(a)), "==", lambda b_: const_val(strip_casts(b_)) == 0, truth=True) \
        if hasattr(guards, "rel_edges") else []
    ok = bool(rec) and f.must_pass(via_roots=rec + rel, via_edges=nullfail, starts=[(b, i + 1)], targets=[f.exit_node()] + [(bb, ii) for bb, ii, r in f.returns()])
    res.check(ok, R, "recorded-before-any-exit", f.loc, "the buffer is stored into job->dstBuff before any way out of the worker",
              "ZSTDMT_compressionJob can leave (JOB_ERROR after a failed allocation) between taking its output buffer from the pool and recording it in the "
              "job: the block is never returned through the caller's deallocator")
    res.need(R, 2)


def context_copy_keeps_ownership(prog, res):
    """T5 (ownership): ZSTD_copyDCtx copies the source context byte for byte up to a boundary field.  Every field inside the
    copied range that says what the DESTINATION owns or how it was allocated - a field its destructor (ZSTD_freeDCtx /
    ZSTD_clearDict) hands to a release routine, its allocator, its static size - must be written again after the copy on
    every path to the exit: otherwise two contexts release one object and the destination's own objects leak."""
    R = "T5c.context-copy-keeps-ownership"
    f = prog.fn("ZSTD_copyDCtx")
    rec = prog.records.get("ZSTD_DCtx_s")
    cp = f.call_roots(("memcpy", "__builtin_memcpy", "ZSTD_memcpy"))
    res.check(rec is not None and len(cp) == 1, R, "shape", f.loc, "one bulk copy", "ZSTD_copyDCtx changed shape (%d bulk copies)" % len(cp))
    if rec is None or len(cp) != 1:
        return
    call = [c for c in walk(f.blocks[cp[0][0]]["el"][cp[0][1]]) if is_call(c, ("memcpy", "__builtin_memcpy", "ZSTD_memcpy"))][0]
    order = [x["n"] for x in rec["fields"]]
    bound = [y.get("f") for y in f.walk_deep(call["a"][2]) if y.get("k") == "mem" and y.get("f") in order]
    whole = not bound
    limit = min(order.index(b) for b in bound) if bound else len(order)
    copied = set(order[:limit])
    owners = {"customMem", "staticSize"}
    for dn in ("ZSTD_freeDCtx", "ZSTD_clearDict"):
        d = prog.fn(dn)
        for b, i, c in d.calls():
            if c.get("c") and ("free" in c["c"].lower()) and c.get("a"):
                for a in c["a"][:1]:
                    for y in walk(a):
                        if y.get("k") == "mem" and y.get("f") in order:
                            owners.add(y["f"])
    need = sorted(owners & copied)
    res.check(len(need) >= 4, R, "owner-fields-in-range", f.loc, "owner fields inside the copied range: %s" % ", ".join(need),
              "owner fields of ZSTD_DCtx_s inside the copied range: %s (%s)" % (need, "whole object" if whole else "up to " + order[limit]))
    for fld in need:
        wr = f.find_roots(lambda x: x.get("k") == "asg" and x.get("op") == "=" and strip_casts(x["lhs"]).get("k") == "mem" and strip_casts(x["lhs"]).get("f") == fld)
        ok = bool(wr) and f.must_pass(via_roots=wr, starts=[(cp[0][0], cp[0][1] + 1)])
        res.check(ok, R, "ZSTD_copyDCtx:" + fld, f.loc, "dst->%s is re-established after the copy" % fld,
                  "ZSTD_copyDCtx copies the source's `%s` into the destination and leaves it there: after ZSTD_DCtx_loadDictionary(src) + ZSTD_copyDCtx both "
                  "contexts own one DDict (double free at the second ZSTD_freeDCtx), the destination's own dictionary leaks, a static destination forgets it is static" % fld)
    res.need(R, 6)


ALLOCATOR_WRITERS_OK = {
    "ZSTD_copyDCtx": "puts the destination's own allocator back after the bulk copy (T5c.context-copy-keeps-ownership checks it)",
    "ZSTDMT_serialState_reset": "fills the customMem of a ZSTD_CCtx_params value it is handed, not of an allocated object",
}


def allocator_fixed_at_construction(prog, res):
    """T10 (who may write): the allocator recorded in an object (`customMem` / `cMem`) is what its blocks are released with.
    It is written where the object is constructed (functions named *create* / *init*) and nowhere else: a later writer
    makes blocks obtained from one allocator go to another one's free."""
    R = "T10.allocator-fixed-at-construction"
    n = 0
    for f in prog.all_functions():
        if not f.file.startswith(("lib/", "contrib/seekable_format/")):
            continue
        hits = []
        for b, i, r in f.roots():
            for x in walk(r):
                if x.get("k") == "asg" and strip_casts(x["lhs"]).get("k") == "mem" and strip_casts(x["lhs"]).get("f") in ("customMem", "cMem"):
                    hits.append(x.get("l"))
                if is_call(x, ("memcpy", "__builtin_memcpy", "ZSTD_memcpy", "memmove")) and x.get("a") and \
                        any(y.get("k") == "mem" and y.get("f") in ("customMem", "cMem") for y in walk(x["a"][0])):
                    hits.append(x.get("l"))
        if not hits:
            continue
        n += 1
        low = f.name.lower()
        ok = "create" in low or "init" in low or f.name in ALLOCATOR_WRITERS_OK
        res.check(ok, R, f.name, f.loc, "constructor" if f.name not in ALLOCATOR_WRITERS_OK else ALLOCATOR_WRITERS_OK[f.name],
                  "%s overwrites the allocator of an existing object (line %s): what the object already holds was obtained from the previous allocator and will be "
                  "released through the new one (ZSTD_copyCCtx between contexts of two custom allocators: a block from A goes to B's free)" % (f.name, hits[0]))
    res.need(R, 8)


def serial_state_allocator(prog, res):
    """T5e: ZSTDMT_serialState_reset allocates the LDM tables of a multi-threaded context with the customMem found in the
    parameters it is handed.  The requested parameters never carry the caller's allocator: every caller stores the MT
    context's own allocator (mtctx->cMem) there on every path to the call."""
    R = "T5e.serial-state-allocator"
    g = prog.fn("ZSTDMT_serialState_reset")
    from_params = any(y.get("k") == "mem" and y.get("f") == "customMem" for n, ds in g.local_defs().items() for d in ds if d is not None for y in walk(d))
    res.check(from_params, R, "reset:allocator-from-params", g.loc, "the allocator is read from params.customMem", "ZSTDMT_serialState_reset no longer takes its allocator from params.customMem (re-read)")
    n = 0
    for f in prog.callers().get("ZSTDMT_serialState_reset", []):
        calls = f.call_roots("ZSTDMT_serialState_reset")
        st = f.find_roots(lambda x: x.get("k") == "asg" and x.get("op") == "=" and strip_casts(x["lhs"]).get("k") == "mem" and strip_casts(x["lhs"]).get("f") == "customMem"
                          and any(y.get("k") == "mem" and y.get("f") == "cMem" for y in f.walk_deep(x["rhs"])))
        n += 1
        res.check(bool(st) and f.must_pass(via_roots=st, targets=calls), R, f.name, f.loc, "params.customMem = mtctx->cMem on every path to the call",
                  "%s resets the serial state with whatever customMem the requested parameters hold (nothing ever sets it): with nbWorkers >= 1 and long distance "
                  "matching the LDM hash and bucket tables come from plain malloc() although the context has a custom allocator" % f.name)
    res.need(R, 2)


def run(tier):
    res = Result("C13", tier)
    tus, info = extract(["common", "compress", "decompress", "dictBuilder", "seekable", "legacy"])
    prog = Program(tus)
    res.info = info
    fns = [f for f in prog.all_functions() if f.file.startswith(SCOPE)]
    who_may_allocate(prog, res)
    alloc.null_before_use(prog, res, "T5b.null-before-use", fns, NULL_EXC)
    res.need("T5b.null-before-use", 75)
    alloc.release_on_every_exit(prog, res, "T5c.release-on-every-exit", fns, REL_EXC, TRANSFER)
    res.need("T5c.release-on-every-exit", 50)
    alloc.no_dangling_owner(prog, res, "T5g.no-dangling-owner", [f for f in prog.all_functions() if f.file.startswith("lib/")])
    res.need("T5g.no-dangling-owner", 25)
    alloc.destructor_releases_fields(prog, res, "T5d.field-destructor", DESTRUCTORS, ALLOC_LIKE)
    res.need("T5d.field-destructor", 16)
    alloc.destructor_null_tolerant(prog, res, "T5f.destructor-null-tolerant", NULL_TOLERANT, {
        ("ZSTDMT_releaseAllJobResources", "bufPool"): "handed to ZSTDMT_releaseBuffer, which returns before touching the pool when the buffer is NULL; "
                                                       "no job holds a buffer when the pool could not be created (job table zeroed at creation)"})
    res.need("T5f.destructor-null-tolerant", 3)
    alloc.allocator_before_destructor(prog, res, "T5e.allocator-before-destructor", CTORS)
    res.need("T5e.allocator-before-destructor", 7)
    allocator_pair_validated(prog, res)
    decoder_realloc(prog, res)
    job_buffer_recorded(prog, res)
    mt_resize_failure_atomic(prog, res)
    legacy_stale_sizes(prog, res)
    context_copy_keeps_ownership(prog, res)
    allocator_fixed_at_construction(prog, res)
    serial_state_allocator(prog, res)
    # the serial state's tables are freed with serialState->params.customMem: it must be recorded
    # before the tables are (re)allocated, else a failure in between frees with the wrong allocator
    sr = prog.fn("ZSTDMT_serialState_reset")
    al = sr.call_roots(("ZSTD_customMalloc", "ZSTD_customCalloc"))
    wr = sr.find_roots(lambda x: x.get("k") == "asg" and strip_casts(x["lhs"]).get("k") == "mem" and
                       (strip_casts(x["lhs"])["f"] == "customMem" or (strip_casts(x["lhs"])["f"] == "params" and strip_casts(x["lhs"]).get("rec") == "serialState_t")))
    res.check(bool(al) and bool(wr) and sr.must_pass(via_roots=wr, targets=al), "T5e.allocator-before-destructor", "ZSTDMT_serialState_reset",
              sr.loc, "serialState->params.customMem recorded before the LDM tables are allocated",
              "LDM tables can be allocated before the allocator that ZSTDMT_serialState_free will use is recorded")
    # constructors that can return NULL are themselves checked by their callers
    # frozen guards of lib/compress for the error codes this property owns (shared inventory, split by code)
    import json as _json, os as _os
    from ..rules import guards as _guards
    _inv = [e for e in _json.load(open(_os.path.join(_os.path.dirname(_os.path.abspath(__file__)), "inv", "compress_all.json"))) if set(e["codes"]) & {'memory_allocation'}]
    _guards.check_inventory(prog, res, 'T8.frozen-guards(memory_allocation)', _inv)
    res.need('T8.frozen-guards(memory_allocation)', 18)
    return res.finish(
        explanation="Allocation discipline over lib/, lib/dictBuilder, lib/legacy and contrib/seekable_format: raw "
                    "malloc/free only in the allocator shims; every allocation result (including the custom "
                    "allocator callback) is compared with NULL before any dereference or memset/memcpy; locals "
                    "holding an allocation are freed, returned or handed over on every exit; every owned field is "
                    "released by its destructor, which tolerates NULL fields of a partially built object; the "
                    "allocator is stored in the object before its destructor can run; stale buffer sizes are "
                    "cleared before re-allocation.",
        not_decided="that after a session reset the same context completes the operation once memory is available",
        assumptions=["ownership transfers recognised: return, store into a field/out-parameter, ZSTD_cwksp_init, POOL_add, *_tryParameters"])
