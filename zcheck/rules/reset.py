"""T13 reset completeness: every field path of record R written by operation code is also
written by the reset function(s) on every path to a success return, or is on the frozen
"persists by design" list."""
from ..ir import walk, strip_casts, is_call, err_name, const_val


def field_path_from(n, rec):
    """for a mem-chain expression, the tuple of field names starting at the member of `rec`
    (e.g. mtctx->inBuff.prefix.start with rec=ZSTDMT_CCtx_s -> ('inBuff','prefix','start'))."""
    n = strip_casts(n)
    chain = []
    cur = n
    while cur is not None:
        k = cur.get("k")
        if k == "mem":
            chain.append(cur)
            cur = strip_casts(cur["b"])
        elif k == "idx":
            cur = strip_casts(cur["b"])
        elif k == "un" and cur.get("op") in ("*", "&"):
            cur = strip_casts(cur["e"])
        else:
            break
    chain.reverse()  # outermost base first
    for i, m in enumerate(chain):
        if m.get("rec") == rec:
            return tuple(x["f"] for x in chain[i:])
    return None


MEMFILL = ("memset", "__builtin_memset", "memcpy", "__builtin_memcpy", "memmove", "__builtin_memmove")


def written_paths(f, rec, addr_calls=True, prog=None, ptr_calls=None):
    """{path: [(b, i, line)]} of field paths of `rec` written in f: assignments, ++/--,
    memset/memcpy destinations, and (addr_calls) &field handed to a callee."""
    out = {}

    def add(p, b, i, line):
        if p:
            out.setdefault(p, []).append((b, i, line))

    for b, i, r in f.roots():
        for x in walk(r):
            k = x.get("k")
            if k == "asg":
                add(field_path_from(x["lhs"], rec), b, i, x.get("l"))
            elif k == "un" and x.get("op", "").endswith(("++", "--")):
                add(field_path_from(x["e"], rec), b, i, x.get("l"))
            elif k == "call":
                args = x.get("a", [])
                if x.get("c") in MEMFILL and args:
                    add(field_path_from(args[0], rec), b, i, x.get("l"))
                if ptr_calls and x.get("c") in ptr_calls and len(args) > ptr_calls[x["c"]]:
                    # callee known (checked separately) to re-establish the whole pointee
                    add(field_path_from(args[ptr_calls[x["c"]]], rec), b, i, x.get("l"))
                if x.get("c") not in MEMFILL and addr_calls:
                    callee = None
                    if prog is not None and x.get("c") and prog.functions.get(x["c"]):
                        callee = prog.functions[x["c"]][0]
                    for ai, a in enumerate(args):
                        if callee is not None and ai < len(callee.params) and \
                                callee.params[ai]["t"].lstrip().startswith("const "):
                            continue     # pointer-to-const parameter: the callee only reads
                        a = strip_casts(a)
                        if a is not None and a.get("k") == "un" and a.get("op") == "&":
                            add(field_path_from(a["e"], rec), b, i, x.get("l"))
    return out


def covers(reset_path, op_path):
    n = min(len(reset_path), len(op_path))
    return reset_path[:n] == op_path[:n] and len(reset_path) <= len(op_path)


def ret_is_error(f, b, i, r):
    """is this return statement an error return?  constant error code, or a local that the
    enclosing branch tested with an *_isError predicate (FORWARD_IF_ERROR shape)."""
    e = r.get("e")
    if e is None:
        return False
    if err_name(e):
        return True
    v = strip_casts(e)
    if v.get("k") == "ref" and v.get("rk") in ("l", "sl"):
        name = v["n"]
        for bid, cond, t, fl in f.branches():
            c = f.resolve_x(cond)
            hit = False
            for y in walk(c):
                if y.get("k") == "call" and (y.get("c") or "").endswith("isError"):
                    for a in y.get("a", []):
                        a = strip_casts(a)
                        if a.get("k") == "ref" and a["n"] == name:
                            hit = True
            if hit and f.must_pass(via_edges={(bid, t)}, targets=[(b, i)]):
                return True
    return False


def success_returns(f):
    return [(b, i) for b, i, r in f.returns() if not ret_is_error(f, b, i, r)]


def reset_completeness(prog, res, rule, rec, op_fns, reset_fn, helper_fns, persist, min_fields, whole_memset=False,
                       ptr_calls=None, skip_edges=None, label=None):
    """op_fns: functions whose writes define the 'dirty' set; reset_fn: Function that must
    re-establish them (writes found in reset_fn itself on every path to a success return,
    or anywhere in a helper it calls on every such path); persist: {path-prefix tuple: reason}."""
    dirty = {}
    for f in op_fns:
        for p, sites in written_paths(f, rec, prog=prog).items():
            dirty.setdefault(p, []).append((f.name, sites[0][2]))
    own = written_paths(reset_fn, rec, prog=prog, ptr_calls=ptr_calls)
    helper_paths = {}
    for h in helper_fns:
        hp = written_paths(h, rec, prog=prog)
        call_sites = reset_fn.call_roots(h.name)
        for p in hp:
            helper_paths.setdefault(p, []).extend(call_sites)
    targets = success_returns(reset_fn)
    if not targets and reset_fn.ret in ("void",):
        targets = [reset_fn.exit_node()]
    n = 0
    for p in sorted(dirty):
        key = "%s.%s" % (rec, ".".join(p))
        who = ", ".join(sorted({w for w, _ in dirty[p]}))[:120]
        why = None
        for pp, reason in persist.items():
            if pp and pp[-1] == "$":
                if p == pp[:-1]:       # exact path only
                    why = reason
            elif p[:len(pp)] == pp:
                why = reason
        if why:
            res.ok(rule, key, reset_fn.loc, "persists by design: " + why)
            n += 1
            continue
        via = []
        for rp, sites in own.items():
            if covers(rp, p):
                via += [(b, i) for b, i, _ in sites]
        for rp, sites in helper_paths.items():
            if covers(rp, p):
                via += sites
        se = set()
        for pp, edges in (skip_edges or {}).items():
            if p[:len(pp)] == pp:
                se |= set(edges)
        ok = bool(via) and reset_fn.must_pass(via_roots=via, via_edges=se, targets=targets)
        res.check(ok, rule, key, reset_fn.loc,
                  "written by %s; re-established on every path of %s" % (who, reset_fn.name),
                  "field written by %s is not re-established by %s on every path to a successful return "
                  "(state of a previous or aborted operation survives the reset)" % (who, reset_fn.name))
        n += 1
    res.need(rule, min_fields)
    return n
