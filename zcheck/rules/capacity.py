"""T8 destination/capacity pairing at delegating calls.  When a callee takes (dst pointer,
capacity) as consecutive parameters:
  A. if the destination argument is `P + K`, the capacity argument must subtract the same K;
  B. if the capacity argument is a pointer difference `E - Q`, Q must be the destination
     argument itself.
Both are necessary for `nothing is written beyond the capacity the caller gave`: the callee's
own capacity checks are relative to the pair it receives."""
from ..ir import strip_casts

CAP_NAMES = ("dstSize", "maxDstSize", "dstLen", "dstCapacity", "maxDstSize")


def is_cap_param(p):
    n, t = p["n"], p["t"].replace("const ", "").strip()
    return t == "size_t" and ("apacity" in n or n in CAP_NAMES)


def dst_capacity_pairs(prog, res, rule, file_prefixes, min_sites):
    n = 0
    for f in prog.all_functions():
        if not f.file.startswith(tuple(file_prefixes)):
            continue
        for b, i, c in f.calls():
            name = c.get("c")
            if not name or not prog.functions.get(name):
                continue
            cal = prog.functions[name][0]
            args = c["a"]
            for k in range(min(len(args), len(cal.params)) - 1):
                pt = cal.params[k]["t"]
                if "*" not in pt or "const" in pt.split("*")[0] or not is_cap_param(cal.params[k + 1]):
                    continue
                dst = strip_casts(args[k])
                cap = strip_casts(args[k + 1])
                key = "%s->%s@arg%d" % (f.name, name, k)
                where = "%s:%s" % (f.file, c.get("l"))
                if dst.get("k") == "bin" and dst.get("op") == "+":
                    n += 1
                    a, bb = strip_casts(dst["lhs"]), strip_casts(dst["rhs"])
                    # K is the non-pointer operand
                    K = bb if "*" in (a.get("t") or "") or a.get("k") in ("ref", "mem") and "*" in (a.get("t") or "") else a
                    if "*" in (bb.get("t") or ""):
                        K = a
                    ks = f.shape(K)
                    cs = f.shape(cap)
                    ok = ("-" + ks + ")") in cs or ("-" + ks) in cs
                    res.check(ok, rule, key + ":offset", where,
                              "destination advanced by %s and capacity reduced by the same amount" % ks,
                              "destination is advanced by %s but the capacity passed (%s) is not reduced by it: the callee "
                              "may write %s bytes past the caller's buffer" % (ks, cs, ks))
                if cap is not None and cap.get("k") == "bin" and cap.get("op") == "-":
                    q = strip_casts(cap["rhs"])
                    if "*" in (q.get("t") or ""):
                        n += 1
                        ok = f.shape(q) == f.shape(dst)
                        res.check(ok, rule, key + ":difference", where, "capacity is `end - dst` of the very pointer passed",
                                  "capacity is computed from %s but the destination passed is %s" % (f.shape(q), f.shape(dst)))
    res.count(rule + ".sites", n)
    res.need(rule, min_sites)
