"""T5 allocation discipline: NULL-before-use, release-on-every-exit, field/destructor
pairing, destructor NULL tolerance, allocator recorded before the destructor can run."""
import re

from ..ir import walk, strip_casts, is_call, const_val

ALLOC_CALLS = ("ZSTD_customMalloc", "ZSTD_customCalloc", "malloc", "calloc", "realloc")
MEMFILL = ("memset", "__builtin_memset", "memcpy", "__builtin_memcpy", "memmove", "__builtin_memmove")
RELEASE_RE = re.compile(r"(^free$|_free|Free|destroy|Destroy|release|Release|fclose)")


def key(f, e):
    """identity of a pointer-valued lvalue: local / param / field path; None if unnamed."""
    e = strip_casts(e)
    if e is None:
        return None
    k = e.get("k")
    if k == "ref":
        if e.get("rk") in ("l", "sl"):
            return "L:" + e["n"]
        if e.get("rk") == "p":
            return "P:%d" % e["pi"]
        if e.get("rk") == "g":
            return "G:" + e["n"]
        return None
    if k == "mem":
        b = key(f, e["b"])
        return None if b is None else b + ("->" if e.get("arrow") else ".") + e["f"]
    if k == "idx":
        b = key(f, e["b"])
        return None if b is None else b + "[]"
    if k == "un" and e.get("op") == "*":
        b = key(f, e["e"])
        return None if b is None else "*" + b
    return None


def is_alloc_source(n, extra=()):
    if n is None or n.get("k") != "call":
        return False
    if n.get("c") in ALLOC_CALLS or n.get("c") in extra:
        return True
    if n.get("c") is None:
        fn = strip_casts(n.get("fn"))
        return fn is not None and fn.get("k") == "mem" and fn["f"] == "customAlloc"
    return False


def alloc_sites(f, extra=()):
    """[(b, i, key, callnode)] : allocation results stored into a named lvalue."""
    out = []
    for b, i, r in f.roots():
        for x in walk(r):
            if x.get("k") == "decl":
                for v in x.get("vars", []):
                    init = strip_casts(v.get("init")) if v.get("init") is not None else None
                    init = f.resolve_x(init) if init is not None else None
                    if is_alloc_source(init, extra):
                        out.append((b, i, "L:" + v["n"], init))
            elif x.get("k") == "asg" and x.get("op") == "=":
                rhs = strip_casts(f.resolve_x(x["rhs"]))
                if is_alloc_source(rhs, extra):
                    k = key(f, x["lhs"])
                    if k:
                        out.append((b, i, k, rhs))
    return out


def null_tests(f, K):
    """[(bid, nonnull_succ)] for branches that establish K != NULL on one edge."""
    out = []
    for bid, cond, t, fl in f.branches():
        c = strip_casts(f.resolve_x(cond))
        neg = False
        while c is not None and c.get("k") == "un" and c.get("op") == "!":
            c = strip_casts(f.resolve_x(c["e"]))
            neg = not neg
        if c is None:
            continue
        # truthiness of K itself
        if key(f, c) == K:
            out.append((bid, fl if neg else t))
            continue
        if c.get("k") == "bin" and c.get("op") in ("==", "!="):
            a, b2 = strip_casts(c["lhs"]), strip_casts(c["rhs"])
            other = None
            if key(f, a) == K:
                other = b2
            elif key(f, b2) == K:
                other = a
            if other is not None and const_val(other) == 0:
                eq = (c["op"] == "==") != neg
                out.append((bid, fl if eq else t))
                continue
        # bitwise combination of null tests: (!a | !b | ...) / ((a==NULL) | ...): all non-null on the zero edge
        if c.get("k") == "bin" and c.get("op") == "|" and not neg:
            terms = []
            stack = [c]
            while stack:
                y = strip_casts(stack.pop())
                if y.get("k") == "bin" and y.get("op") == "|":
                    stack += [y["lhs"], y["rhs"]]
                else:
                    terms.append(y)
            for y in terms:
                if y.get("k") == "un" and y.get("op") == "!" and key(f, y["e"]) == K:
                    out.append((bid, fl))
                elif y.get("k") == "bin" and y.get("op") == "==" and const_val(y["rhs"]) == 0 and key(f, y["lhs"]) == K:
                    out.append((bid, fl))
    return out


_REQ_CACHE = {}


def requires_non_null(prog, gname, j, depth=0):
    """does function gname dereference its j-th parameter (->, [], *, memset/memcpy destination, or by handing it to a
    callee that does) without ever comparing it with NULL?"""
    ck = (gname, j)
    if ck in _REQ_CACHE:
        return _REQ_CACHE[ck]
    _REQ_CACHE[ck] = False
    if prog is None or not prog.has_fn(gname) or depth > 2:
        return False
    cands = prog.functions.get(gname, [])
    if len(cands) != 1:
        return False            # several definitions (legacy copies): not resolved here
    g = cands[0]
    if j >= len(g.params) or "*" not in (g.params[j].get("t") or ""):
        return False
    K = "P:%d" % j
    if null_tests(g, K):
        return False
    out = bool(deref_roots(g, K, _depth=depth + 1))
    _REQ_CACHE[ck] = out
    return out


def deref_roots(f, K, _depth=0):
    out = []
    prog = getattr(f, "prog", None)
    for b, i, r in f.roots():
        hit = False
        for x in walk(r):
            k = x.get("k")
            if k == "call" and x.get("c") and x.get("c") not in MEMFILL and prog is not None and _depth <= 2:
                for j, a in enumerate(x.get("a", [])):
                    if key(f, a) == K and requires_non_null(prog, x["c"], j, _depth):
                        hit = True
            if k == "mem" and x.get("arrow") and key(f, x["b"]) == K:
                hit = True
            elif k == "idx" and key(f, x["b"]) == K:
                hit = True
            elif k == "un" and x.get("op") == "*" and key(f, x["e"]) == K:
                hit = True
            elif k == "call" and x.get("c") in MEMFILL and x.get("a") and key(f, x["a"][0]) == K:
                hit = True
        if hit:
            out.append((b, i))
    return out


def redef_roots(f, K, except_pos):
    out = []
    for b, i, r in f.roots():
        if (b, i) == except_pos:
            continue
        for x in walk(r):
            if x.get("k") == "asg" and x.get("op") == "=" and key(f, x["lhs"]) == K:
                out.append((b, i))
    return out


def null_before_use(prog, res, rule, fns, exceptions=None, extra_sources=()):
    exceptions = exceptions or {}
    n = 0
    for f in fns:
        for b, i, K, call in alloc_sites(f, extra_sources):
            n += 1
            der = [d for d in deref_roots(f, K) if d != (b, i)]
            ikey = "%s:%s<-%s" % (f.name, K, call.get("c") or "customAlloc")
            where = "%s:%s" % (f.file, call.get("l"))
            if not der:
                res.ok(rule, ikey, where, "never dereferenced in this function")
                continue
            edges = null_tests(f, K)
            ok = f.flow([(b, i + 1)], cut_edges=set(), cut_roots=set(redef_roots(f, K, (b, i))))
            reach_der = [d for d in der if d in ok]
            if not reach_der:
                res.ok(rule, ikey, where, "no dereference reachable from the allocation")
                continue
            good = f.must_pass(via_edges=set(edges), via_roots=set(redef_roots(f, K, (b, i))), starts=[(b, i + 1)], targets=reach_der)
            if not good and (f.name, K) in exceptions:
                res.ok(rule, ikey, where, "frozen exception: " + exceptions[(f.name, K)])
                continue
            res.check(good, rule, ikey, where, "tested against NULL before every dereference (%d)" % len(reach_der),
                      "the allocation result %s can be dereferenced (->, [], *, memset/memcpy destination) before it is "
                      "compared with NULL: a failed allocation crashes instead of returning an error" % K)
    res.count(rule + ".allocation_sites", n)
    return n


def release_roots(f, K, transfer_ok=()):
    """roots that release, return or hand over K."""
    out = []
    name = K[2:] if K.startswith("L:") else None
    for b, i, r in f.roots():
        done = False
        for x in walk(r):
            if x.get("k") == "call":
                cn = x.get("c") or ""
                if (RELEASE_RE.search(cn) or cn in transfer_ok) and any(key(f, a) == K for a in x.get("a", [])):
                    done = True
                if x.get("c") is None:
                    fn = strip_casts(x.get("fn"))
                    if fn is not None and fn.get("k") == "mem" and fn["f"] == "customFree" and any(key(f, a) == K for a in x.get("a", [])):
                        done = True
            elif x.get("k") == "ret":
                if any(y.get("k") == "ref" and y.get("n") == name for y in walk(x.get("e"))):
                    done = True
            elif x.get("k") == "asg" and x.get("op") == "=":
                rhs = strip_casts(f.resolve_x(x["rhs"]))
                lhs = strip_casts(x["lhs"])
                if key(f, rhs) == K and lhs.get("k") in ("mem", "un", "idx"):
                    done = True      # stored into an owner / out-parameter
                elif rhs is not None and rhs.get("k") in ("complit", "init") and any(key(f, y) == K for y in walk(rhs)):
                    done = True
            elif x.get("k") == "decl":
                for v in x.get("vars", []):
                    init = v.get("init")
                    if init is not None and strip_casts(init).get("k") in ("init", "complit") and any(key(f, y) == K for y in walk(init)):
                        done = True
        if done:
            out.append((b, i))
    return out


def release_on_every_exit(prog, res, rule, fns, exceptions=None, transfer_ok=(), extra_sources=()):
    exceptions = exceptions or {}
    n = 0
    for f in fns:
        for b, i, K, call in alloc_sites(f, extra_sources):
            if not K.startswith("L:") or "->" in K or "." in K or "[" in K:
                continue
            n += 1
            ikey = "%s:%s" % (f.name, K[2:])
            where = "%s:%s" % (f.file, call.get("l"))
            rel = release_roots(f, K, transfer_ok)
            tests = null_tests(f, K)
            # paths on which K is NULL owe nothing: the null edge of every test excuses the path
            null_edges = set()
            for bid, nn in tests:
                for s2 in f.succs(bid):
                    if s2 != nn:
                        null_edges.add((bid, s2))
            ok = f.must_pass(via_roots=set(rel) | set(redef_roots(f, K, (b, i))), via_edges=null_edges, starts=[(b, i + 1)])
            if not ok and (f.name, K[2:]) in exceptions:
                res.ok(rule, ikey, where, "frozen exception: " + exceptions[(f.name, K[2:])])
                continue
            res.check(ok, rule, ikey, where, "released, returned or handed to an owner on every path to an exit",
                      "memory obtained into `%s` can reach an exit of %s without being freed, returned or stored into an owner "
                      "(leak on an error path)" % (K[2:], f.name))
    res.count(rule + ".local_allocations", n)
    return n


def destructor_releases_fields(prog, res, rule, table, alloc_like):
    """table: {record: (destructor, [helper functions it may delegate to])}.  Every field of
    the record that receives an allocation/constructor result anywhere is released by the
    destructor (directly or in a listed helper)."""
    for rec, (dtor, helpers, ignore) in sorted(table.items()):
        owned = {}
        for f in prog.all_functions():
            for b, i, r in f.roots():
                for x in walk(r):
                    if x.get("k") == "asg" and x.get("op") == "=":
                        lhs = strip_casts(x["lhs"])
                        if lhs.get("k") == "mem" and lhs.get("rec") == rec:
                            rhs = strip_casts(f.resolve_x(x["rhs"]))
                            if rhs is not None and rhs.get("k") == "call" and (is_alloc_source(rhs) or rhs.get("c") in alloc_like):
                                owned.setdefault(lhs["f"], f.name)
        fns = [prog.fn(dtor)] + [prog.fn(h) for h in helpers if prog.has_fn(h)]
        released = set()
        for g in fns:
            for b, i, c in g.calls():
                cn = c.get("c") or ""
                if RELEASE_RE.search(cn) or (c.get("c") is None):
                    for a in c.get("a", []):
                        for y in walk(a):
                            if y.get("k") == "mem" and y.get("rec") == rec:
                                released.add(y["f"])
        for fld, who in sorted(owned.items()):
            if fld in ignore:
                res.ok(rule, "%s.%s" % (rec, fld), prog.fn(dtor).loc, "not owned: " + ignore[fld])
                continue
            res.check(fld in released, rule, "%s.%s" % (rec, fld), prog.fn(dtor).loc,
                      "allocated in %s, released by %s" % (who, dtor),
                      "field %s.%s receives an allocation (in %s) but %s never releases it" % (rec, fld, who, dtor))


def destructor_null_tolerant(prog, res, rule, table, exceptions=None):
    """the destructor (and the listed helpers it passes the object to) must tolerate a
    partially constructed object: a pointer field is dereferenced only after a NULL test."""
    for rec, (dtor, helpers, fields) in sorted(table.items()):
        for name in [dtor] + list(helpers):
            if not prog.has_fn(name):
                continue
            g = prog.fn(name)
            for fld in fields:
                Ks = set()
                for b, i, r in g.roots():
                    for x in walk(r):
                        if x.get("k") == "mem" and x.get("rec") == rec and x["f"] == fld:
                            k = key(g, x)
                            if k:
                                Ks.add(k)
                for K in sorted(Ks):
                    der = deref_roots(g, K)
                    if not der:
                        continue
                    edges = null_tests(g, K)
                    ok = g.must_pass(via_edges=set(edges), targets=der)
                    if not ok and exceptions and (name, fld) in exceptions:
                        res.ok(rule, "%s:%s.%s" % (name, rec, fld), g.loc, "frozen exception: " + exceptions[(name, fld)])
                        continue
                    res.check(ok, rule, "%s:%s.%s" % (name, rec, fld), g.loc, "dereferenced only after a NULL test",
                              "%s dereferences %s.%s without testing it: after a failed allocation of that field the destructor crashes"
                              % (name, rec, fld))


def allocator_before_destructor(prog, res, rule, ctors):
    """ctors: [(function, allocator field name, destructor names)].  In a constructor, the
    object's allocator field is written before any destructor call on the object."""
    for fname, fld, dtors in ctors:
        f = prog.fn(fname)
        wr = f.find_roots(lambda x: x.get("k") == "asg" and strip_casts(x["lhs"]).get("k") == "mem" and strip_casts(x["lhs"])["f"] == fld)
        dc = f.call_roots(dtors)
        if not dc:
            res.ok(rule, fname, f.loc, "no destructor call in the constructor")
            continue
        ok = bool(wr) and f.must_pass(via_roots=wr, targets=dc)
        res.check(ok, rule, fname, f.loc, "%s is stored before %s can run" % (fld, "/".join(dtors)),
                  "%s can call %s before the object's %s is set: memory from the caller's allocator would be released with free()"
                  % (fname, "/".join(dtors), fld))


def no_dangling_owner(prog, res, rule, fns, exceptions=None):
    """T5g: after an owned field `obj->f` has been handed to a release function, every path to the
    function's exit re-assigns `obj->f` (NULL or a new object) or releases `obj` itself
    (destructor).  Otherwise an early return leaves the owner pointing at freed memory, to be
    freed or read again by the next operation."""
    exceptions = exceptions or {}
    n = 0
    for f in fns:
        frees = []
        for b, i, r in f.roots():
            for x in walk(r):
                if x.get("k") != "call":
                    continue
                cn = x.get("c") or ""
                rel = bool(RELEASE_RE.search(cn))
                if x.get("c") is None:
                    fn = strip_casts(x.get("fn"))
                    rel = fn is not None and fn.get("k") == "mem" and fn["f"] == "customFree"
                if not rel:
                    continue
                args = x.get("a", [])
                pos = 1 if re.search(r"release|Release", cn) and len(args) >= 2 else 0     # release(pool, object) vs free(object, ...)
                if len(args) > pos:
                    K = key(f, args[pos])
                    if K and ("->" in K) and not K.endswith("[]") and K.count("->") == 1 and "." not in K.split("->")[1]:
                        frees.append((b, i, K, x))
                    elif K and re.fullmatch(r"\*P:\d+", K):
                        frees.append((b, i, K, x))      # an owner held through an out-parameter: *ctxPtr
        for b, i, K, call in frees:
            root = K.split("->")[0] if "->" in K else K[1:]
            again = []
            for b2, i2, r2 in f.roots():
                for y in walk(r2):
                    if y.get("k") == "asg" and key(f, y["lhs"]) == K:
                        again.append((b2, i2))
                    elif y.get("k") == "call" and (b2, i2) != (b, i):
                        cn2 = y.get("c") or ""
                        isrel = bool(RELEASE_RE.search(cn2)) or (y.get("c") is None and (strip_casts(y.get("fn")) or {}).get("f") == "customFree")
                        if isrel and any(key(f, a) == root for a in y.get("a", [])):
                            again.append((b2, i2))       # the owner itself is released
                        if y.get("c") in MEMFILL and any(key(f, a) == root for a in y.get("a", [])[:1]):
                            again.append((b2, i2))       # the owner is wiped
            n += 1
            ikey = "%s:%s" % (f.name, K)
            where = "%s:%s" % (f.file, call.get("l"))
            if RELEASE_RE.search(f.name) and root == "P:0":
                res.ok(rule, ikey + "@%s" % call.get("l"), where, "destructor of its first parameter: the owner does not outlive the call")
                continue
            ok = f.must_pass(via_roots=set(again), starts=[(b, i + 1)])
            if not ok and (f.name, K) in exceptions:
                res.ok(rule, ikey, where, "frozen exception: " + exceptions[(f.name, K)])
                continue
            res.check(ok, rule, ikey + "@%s" % call.get("l"), where, "the freed field is re-assigned (or its owner released) on every path to an exit",
                      "%s releases %s and can return with the field still pointing at the freed object: the next operation on the owner frees or reads it again" % (f.name, K))
    res.count(rule + ".sites", n)
    return n
