"""T1 guarded-by (lockset) and T2 lock/condition discipline.

Lock identity is the (record, field) of the mutex object named by the argument of
pthread_mutex_lock/unlock (what ZSTD_pthread_mutex_* expand to with ZSTD_MULTITHREAD,
DEBUGLEVEL=0).  A forward must-hold dataflow over the CFG gives the lockset at every
event; `static` helpers whose every call site holds a lock are inferred "requires-lock".
"""
from collections import defaultdict

from ..ir import walk, is_call, strip_casts, access_path

LOCK = ("pthread_mutex_lock",)
UNLOCK = ("pthread_mutex_unlock",)
WAIT = ("pthread_cond_wait",)
SIGNAL = ("pthread_cond_signal", "pthread_cond_broadcast")
TOP = None  # "all locks" lattice top for the must analysis


def lock_class(fn, arg):
    """(record, field) of a mutex/cond argument such as &ctx->queueMutex or a local alias."""
    p = access_path(arg)
    if p is None:
        return None
    p = fn.expand_local_path(p)
    for el in reversed(p):
        if el[0] == ".":
            return (el[1], el[2])
    return None


def meet(a, b):
    if a is TOP:
        return b
    if b is TOP:
        return a
    return a & b


class LockAnalysis:
    def __init__(self, prog, functions, wrappers=None):
        """functions: list of Function to analyse.  wrappers: name -> ('+'|'-', lock_class)
        for conditional-lock helpers treated as acquire/release (shape-checked by caller)."""
        self.prog = prog
        self.fns = {f.name: f for f in functions}
        self.wrappers = wrappers or {}
        self.entry = {}      # fn name -> frozenset of lock classes held on entry
        self.effect = {}     # fn name -> (acquired, released) net effect at exit
        self.state_in = {}   # (fn name) -> {block: lockset}
        self.problems = []   # (fn, line, text)
        self._solve()

    # ---- per function dataflow -----------------------------------------------------
    def _transfer_node(self, fn, n, st, visit=None):
        if n.get("k") == "call":
            c = n.get("c")
            if c in LOCK and n["a"]:
                lc = lock_class(fn, n["a"][0])
                if visit:
                    visit("lock", n, lc, st)
                return st | {lc}
            if c in UNLOCK and n["a"]:
                lc = lock_class(fn, n["a"][0])
                if visit:
                    visit("unlock", n, lc, st)
                return st - {lc}
            if c in self.wrappers:
                sign, lc = self.wrappers[c]
                if visit:
                    visit("lock" if sign == "+" else "unlock", n, lc, st)
                return (st | {lc}) if sign == "+" else (st - {lc})
            if c in self.effect and c in self.fns:
                acq, rel = self.effect[c]
                if visit:
                    visit("call", n, None, st)
                return (st - rel) | acq
            if visit:
                visit("call", n, None, st)
            return st
        if visit:
            visit("node", n, None, st)
        return st

    def run_function(self, fn, entry_set, visit=None):
        """fixpoint of the must-hold analysis; returns (IN per block, OUT at exit)."""
        IN = {b: TOP for b in fn.blocks}
        IN[fn.entry] = frozenset(entry_set)
        OUT = {}
        work = [fn.entry]
        order = 0
        while work and order < 20000:
            order += 1
            b = work.pop()
            st = IN[b]
            if st is TOP:
                continue
            for r in fn.blocks[b]["el"]:
                for n in walk(r):
                    st = self._transfer_node(fn, n, st)
            if OUT.get(b) == st:
                continue
            OUT[b] = st
            for s in fn.succs(b):
                new = meet(IN[s], st)
                if new != IN[s] or s not in OUT:
                    IN[s] = new
                    work.append(s)
        if visit:
            for b in fn.blocks:
                st = IN[b]
                if st is TOP:
                    continue  # unreachable
                for r in fn.blocks[b]["el"]:
                    for n in walk(r):
                        st2 = self._transfer_node(fn, n, st, lambda *a, _b=b, _r=r: visit(_b, _r, *a))
                        st = st2
        exit_in = IN.get(fn.exit)
        return IN, OUT, (exit_in if exit_in is not TOP else frozenset())

    def _solve(self):
        taken = self.prog.address_taken()
        # static, never address-taken, with callers inside the analysed set: candidates
        cand = set()
        for name, f in self.fns.items():
            if f.static and name not in taken:
                cand.add(name)
        for name in self.fns:
            self.entry[name] = TOP if name in cand else frozenset()
            self.effect[name] = (frozenset(), frozenset())
        for _round in range(6):
            callsite = defaultdict(lambda: TOP)
            seen_call = set()
            new_effect = {}
            for name, f in self.fns.items():
                ent = self.entry[name]
                if ent is TOP:
                    ent = frozenset()

                def visit(b, r, kind, n, lc, st, _f=f):
                    if kind == "call" and n.get("c") in cand:
                        callsite[n["c"]] = meet(callsite[n["c"]], frozenset(st))
                        seen_call.add(n["c"])
                IN, OUT, ex = self.run_function(f, ent, visit)
                new_effect[name] = (frozenset(ex - ent), frozenset(ent - ex))
            changed = False
            for name in cand:
                e = callsite[name] if name in seen_call else frozenset()
                if e is TOP:
                    e = frozenset()
                if self.entry[name] != e:
                    self.entry[name] = e
                    changed = True
            if new_effect != self.effect:
                self.effect = new_effect
                changed = True
            if not changed:
                break
        for name in self.fns:
            if self.entry[name] is TOP:
                self.entry[name] = frozenset()

    # ---- queries ---------------------------------------------------------------------
    def visit_all(self, visit):
        for name, f in self.fns.items():
            self.run_function(f, self.entry[name], lambda b, r, kind, n, lc, st, _f=f: visit(_f, b, r, kind, n, lc, st))


def write_target_ids(r):
    """ids of the nodes in root r that are assigned to (lhs of =/op=, operand of ++/--)."""
    out = set()
    for x in walk(r):
        if x.get("k") == "asg":
            t = strip_casts(x["lhs"])
            if t is not None and "id" in t:
                out.add(t["id"])
        elif x.get("k") == "un" and x.get("op", "").endswith(("++", "--")):
            t = strip_casts(x["e"])
            if t is not None and "id" in t:
                out.add(t["id"])
    return out


def guarded_accesses(la, guarded, res, rule, exceptions, excuse=None):
    """T1: every access to (rec, field) in `guarded` (-> lock class) happens with the lock
    in the lockset, unless the function is a frozen exception {fn: reason} /
    {(fn, field): reason}, or excuse(f, block, root, node, is_write) returns a reason
    (semantic exception kinds decided per access: pre-publication, completed-job guard, ...)."""
    n_acc = 0
    by_fn = defaultdict(list)
    wcache = {}

    def visit(f, b, r, kind, n, lc, st):
        nonlocal n_acc
        if n.get("k") != "mem":
            return
        key = (n.get("rec"), n["f"])
        if key not in guarded:
            return
        need = guarded[key]
        n_acc += 1
        held = need in st
        why = None
        if not held and excuse is not None:
            rid = id(r)
            if rid not in wcache:
                wcache[rid] = write_target_ids(r)
            why = excuse(f, b, r, n, n.get("id") in wcache[rid])
        by_fn[(f.name, key)].append((held, why, f))

    la.visit_all(visit)
    for (fname, key), lst in sorted(by_fn.items()):
        f = lst[0][2]
        unheld = [x for x in lst if not x[0] and not x[1]]
        excused = sorted({x[1] for x in lst if not x[0] and x[1]})
        ikey = "%s:%s.%s" % (fname, key[0], key[1])
        if not unheld:
            d = "%d accesses under %s.%s" % (len([x for x in lst if x[0]]), guarded[key][0], guarded[key][1])
            if excused:
                d += "; %d excused: %s" % (len([x for x in lst if not x[0]]), "; ".join(excused))
            res.ok(rule, ikey, f.loc, d)
            continue
        exc = exceptions.get((fname, key[1])) or exceptions.get(fname)
        if exc:
            res.ok(rule, ikey, f.loc, "exception: " + exc)
            continue
        res.bad(rule, ikey, f.loc,
                "%d of %d accesses to %s.%s in %s without %s.%s held (and no frozen pre-publication/"
                "quiescent/completed-job exception applies)" % (len(unheld), len(lst), key[0], key[1], fname,
                                                                guarded[key][0], guarded[key][1]))
    res.count("guarded_accesses", n_acc)
    return n_acc


def pairing(la, res, rule, lock_classes=None):
    """T2a: unlock only of a held lock, no re-lock of a held lock, no exit with a lock the
    function did not enter with (requires-lock helpers return with exactly their entry set)."""
    issues = defaultdict(list)
    nlock = defaultdict(int)

    def visit(f, b, r, kind, n, lc, st):
        if kind == "lock":
            nlock[f.name] += 1
            if lc is None:
                issues[f.name].append("line %s: lock on an object the analysis cannot name" % n.get("l"))
            elif lc in st:
                issues[f.name].append("line %s: %s.%s locked while already held" % (n.get("l"), lc[0], lc[1]))
        elif kind == "unlock":
            nlock[f.name] += 1
            if lc is None or lc not in st:
                issues[f.name].append("line %s: unlock of %s not held on every path here" % (n.get("l"), lc))

    la.visit_all(visit)
    for name, f in sorted(la.fns.items()):
        if not nlock.get(name):
            continue
        IN, OUT, ex = la.run_function(f, la.entry[name])
        acq, rel = la.effect[name]
        # per exit-predecessor check (must analysis hides a path that leaks)
        for p in f.preds().get(f.exit, []):
            o = OUT.get(p)
            if o is None:
                continue
            if f.blocks[p].get("noret"):
                continue
            if o != la.entry[name] and name not in la.wrappers:
                extra = set(o) - set(la.entry[name])
                missing = set(la.entry[name]) - set(o)
                last = f.blocks[p]["el"][-1] if f.blocks[p]["el"] else {}
                issues[name].append("exit at line %s with lockset changed: still held %s, released %s"
                                    % (last.get("l"), sorted(extra), sorted(missing)))
        res.check(not issues.get(name), rule, name, f.loc,
                  "%d lock/unlock events paired on every path" % nlock[name],
                  "; ".join(issues.get(name, [])))


def waits(la, guarded, res, rule, reader_summaries=None):
    """T2b: cond_wait(c, m) holds m and every path from the wait to an unlock of m, a
    function exit or a write of guarded state re-tests a predicate over guarded state."""
    reader_summaries = reader_summaries or {}
    found = []

    def visit(f, b, r, kind, n, lc, st):
        if kind == "call" and n.get("c") in WAIT:
            found.append((f, b, r, n, frozenset(st)))

    la.visit_all(visit)
    for f, b, r, n, st in found:
        m = lock_class(f, n["a"][1])
        key = "%s:wait@%s" % (f.name, "%s.%s" % lock_class(f, n["a"][0]) if lock_class(f, n["a"][0]) else "?")
        if m not in st:
            res.bad(rule, key, "%s:%s" % (f.file, n.get("l")), "cond_wait without holding %s" % (m,))
            continue
        gfields = {k for k, v in guarded.items() if v == m}

        def is_pred_block(bid):
            br = f.branch(bid)
            if br is None:
                return False
            cond = f.resolve_x(br[0])
            for x in walk(cond):
                if x.get("k") == "mem" and (x.get("rec"), x["f"]) in gfields:
                    return True
            # a local (re)loaded from guarded state, or a summarised reader of guarded state
            anc = f.anchors(cond, depth=2)
            if any(("c:" + c) in anc for c in reader_summaries):
                return True
            if any(("f:" + g[1]) in anc for g in gfields):
                return True
            return False

        def is_target_block(bid):
            if bid == f.exit:
                return True
            for rr in f.blocks[bid]["el"]:
                for x in walk(rr):
                    if is_call(x, UNLOCK) and lock_class(f, x["a"][0]) == m:
                        return True
                    if x.get("k") == "asg" or (x.get("k") == "un" and x.get("op", "").endswith(("++", "--"))):
                        tgt = strip_casts(x.get("lhs") or x.get("e"))
                        if tgt is not None and tgt.get("k") == "mem" and (tgt.get("rec"), tgt["f"]) in gfields:
                            return True
            return False

        # events after the wait in the same block
        bad_path = None
        blk = f.blocks[b]
        idx = [i for i, rr in enumerate(blk["el"]) if rr is r][0]
        same_block_target = False
        for rr in blk["el"][idx + 1:]:
            for x in walk(rr):
                if is_call(x, UNLOCK) and lock_class(f, x["a"][0]) == m:
                    same_block_target = True
        if same_block_target and not is_pred_block(b):
            bad_path = "unlock in the wait's own block"
        else:
            # a re-test counts only if it can lead back to this wait without releasing m
            unlock_blocks = {bid for bid, bb in f.blocks.items() if bid != b and any(
                is_call(x, UNLOCK) and lock_class(f, x["a"][0]) == m for rr in bb["el"] for x in walk(rr))}
            preds = {bid for bid in f.blocks if is_pred_block(bid)
                     and b in f.reachable([bid], cut_blocks=unlock_blocks)}
            start = [s for s in f.succs(b)] if b not in preds else []
            reach = f.reachable(start, cut_blocks=preds)
            hit = [bid for bid in reach if is_target_block(bid)]
            if hit:
                bad_path = "block %s reached from the wait without re-testing a predicate over %s" % (
                    hit[0], sorted("%s.%s" % g for g in gfields))
        res.check(bad_path is None, rule, key, "%s:%s" % (f.file, n.get("l")),
                  "holds %s.%s; predicate re-tested after every wake-up" % m,
                  "wait not in a predicate loop: %s" % bad_path)
    return len(found)


def must_signal(la, res, rule, table):
    """T2c: table = list of (record, field, kind, cond_field, note) where kind is 'any',
    'dec' (only decrements) ; after such a write every path to the function's exit passes a
    signal/broadcast on cond_field; for static helpers the obligation moves to each caller."""
    prog = la.prog

    def signals_in_root(f, r, cond_field):
        for x in walk(r):
            if is_call(x, SIGNAL) and x["a"]:
                lc = lock_class(f, x["a"][0])
                if lc and lc[1] == cond_field:
                    return True
        return False

    def is_write(x, rec, field, kind):
        if kind == "any+addr" and x.get("k") == "call" and x.get("c") not in LOCK + UNLOCK + WAIT + SIGNAL:
            for a in x.get("a", []):
                a = strip_casts(a)
                if a.get("k") == "un" and a.get("op") == "&":
                    t = strip_casts(a["e"])
                    if t.get("k") == "mem" and t.get("rec") == rec and t["f"] == field:
                        return True
        if x.get("k") == "asg":
            tgt = strip_casts(x["lhs"])
            if tgt.get("k") == "mem" and tgt.get("rec") == rec and tgt["f"] == field:
                if kind == "dec":
                    return x.get("op") == "-="
                return True
        if x.get("k") == "un" and x.get("op", "").endswith(("++", "--")):
            tgt = strip_casts(x["e"])
            if tgt.get("k") == "mem" and tgt.get("rec") == rec and tgt["f"] == field:
                if kind == "dec":
                    return x["op"].endswith("--")
                return True
        return False

    def escapes(f, b, i, cond_field, depth=0):
        """does a path from just after root (b,i) reach exit without a signal?  Returns
        list of offending descriptions."""
        blk = f.blocks[b]
        for rr in blk["el"][i + 1:]:
            if signals_in_root(f, rr, cond_field):
                return []
            if rr.get("k") == "ret":
                break
        sigblocks = {bid for bid, bb in f.blocks.items()
                     if any(signals_in_root(f, rr, cond_field) for rr in bb["el"])}
        reach = f.reachable(f.succs(b), cut_blocks=sigblocks)
        if f.exit not in reach:
            return []
        if f.static and depth < 2:
            out = []
            callers = [c for c in prog.callers().get(f.name, []) if c.name in la.fns]
            if not callers:
                return ["%s returns without signalling %s and has no analysed caller" % (f.name, cond_field)]
            for c in callers:
                for cb, ci, cn in c.calls(f.name):
                    # the call may be nested in a root; continue after that root
                    out += escapes(c, cb, ci, cond_field, depth + 1)
            return out
        return ["%s: exit reachable after the write without signal/broadcast of %s" % (f.name, cond_field)]

    for rec, field, kind, cond_field, exempt, note in table:
        n_sites = 0
        for f in la.fns.values():
            if f.name in exempt:
                continue
            for b, i, r in f.roots():
                for x in walk(r):
                    if is_write(x, rec, field, kind):
                        n_sites += 1
                        # the signal may be in the same root after the write? (no such idiom) –
                        off = escapes(f, b, i, cond_field)
                        res.check(not off, rule, "%s:%s.%s->%s" % (f.name, rec, field, cond_field),
                                  "%s:%s" % (f.file, x.get("l")), note, "; ".join(off))
        res.count("signal_sites", n_sites)


def broadcast_for_private_predicates(prog, res, rule, fns, worker_entries=()):
    """T2d: a condition variable whose waiters test a predicate that involves a waiter-specific value (a
    scalar parameter or a local of the waiting function, e.g. `nextJobID < jobID`) can have several
    waiters with different predicates; waking one arbitrary waiter may wake the wrong one and the
    signal is lost.  Every wake-up on such a condition variable must be a broadcast."""
    private = {}      # cond class -> (function, line) of a wait with a waiter-specific predicate
    # only functions that run on pool workers can have several simultaneous waiters (the owner thread is one thread)
    multi = set()
    todo = [w for w in worker_entries if prog.has_fn(w)]
    while todo:
        nme = todo.pop()
        if nme in multi or not prog.has_fn(nme):
            continue
        multi.add(nme)
        todo += list(prog.fn(nme).callees())
    for f in fns:
        if worker_entries and f.name not in multi:
            continue
        for b, i, c in f.calls(WAIT):
            cls = lock_class(f, c["a"][0])
            if cls is None:
                continue
            # branches that dominate the wait and can be re-reached from it (the predicate loop)
            for bid, cond, t, fl in f.branches():
                if not f.must_pass(via_edges={(bid, t)}, targets=[(b, i)]) and not f.must_pass(via_edges={(bid, fl)}, targets=[(b, i)]):
                    continue
                if bid not in f.reachable([b]):
                    continue
                cc = f.resolve_x(cond)
                for y in f.walk_resolved(cc):
                    if y.get("k") == "ref" and y.get("rk") == "p" and "*" not in (y.get("t") or ""):
                        private.setdefault(cls, (f.name, c.get("l")))
    n = 0
    for f in fns:
        for b, i, c in f.calls(SIGNAL):
            cls = lock_class(f, c["a"][0])
            if cls in private:
                n += 1
                res.check(c.get("c") == "pthread_cond_broadcast", rule, "%s:%s.%s@%s" % (f.name, cls[0], cls[1], c.get("l")), "%s:%s" % (f.file, c.get("l")),
                          "broadcast (waiters of %s test a waiter-specific predicate in %s)" % (cls[1], private[cls][0]),
                          "%s wakes a single waiter of %s.%s, but %s waits on it with a predicate involving its own parameter: with several waiters the one whose turn it is may never be woken (lost wake-up, the call blocks forever)"
                          % (f.name, cls[0], cls[1], private[cls][0]))
    res.count(rule + ".private-cond-classes", len(private))
    return n


def wait_predicates(prog, fns, guarded):
    """cond class -> [(function, line, frozenset of guarded (rec, field) read by the predicate loop around the wait)].
    The predicate loop is every branch on a cycle through the wait; reads inside same-file static helpers called from
    those conditions (isQueueFull) count one level deep."""
    out = {}
    for f in fns:
        for b, i, c in f.calls(WAIT):
            cls = lock_class(f, c["a"][0])
            if cls is None:
                continue
            fields = set()
            after = f.reachable([b])
            for bid, cond, t, fl in f.branches():
                if bid not in after or b not in f.reachable([bid]):
                    continue
                for y in f.walk_resolved(f.resolve_x(cond)):
                    if y.get("k") == "mem" and (y.get("rec"), y["f"]) in guarded:
                        fields.add((y.get("rec"), y["f"]))
                    if y.get("k") == "call" and y.get("c") and prog.has_fn(y["c"]):
                        h = prog.fn(y["c"])
                        if h.static and h.file == f.file:
                            for _, _, r in h.roots():
                                for z in walk(r):
                                    if z.get("k") == "mem" and (z.get("rec"), z["f"]) in guarded:
                                        fields.add((z.get("rec"), z["f"]))
            out.setdefault(cls, []).append((f.name, c.get("l"), frozenset(fields)))
    return out


def wake_discipline(prog, res, rule, fns, guarded, table, exempt):
    """T2e, two clauses derived from the wait predicates themselves:
    (heterogeneous waiters) a condition variable whose wait sites test different predicates must only be woken by
    broadcast: a single wake-up can be consumed by a waiter whose predicate is still false while the waiter that could
    proceed sleeps on;
    (coverage) every guarded field read by some wait predicate on a condition variable has a must-signal row for that
    condition variable (checked by T2.must-signal), or a reasoned exemption."""
    preds = wait_predicates(prog, fns, guarded)
    rows = {((r[0], r[1]), r[3]) for r in table}
    n = 0
    for cls, sites in sorted(preds.items()):
        kinds = {s[2] for s in sites}
        hetero = len(kinds) > 1
        if hetero:
            for f in fns:
                for b, i, c in f.calls(SIGNAL):
                    if lock_class(f, c["a"][0]) != cls:
                        continue
                    n += 1
                    res.check(c.get("c") == "pthread_cond_broadcast", rule, "%s:broadcast:%s@%s" % (cls[1], f.name, c.get("l")), "%s:%s" % (f.file, c.get("l")),
                              "broadcast (%s is waited on with different predicates by %s)" % (cls[1], sorted({s[0] for s in sites})),
                              "%s wakes a single waiter of %s, which is waited on with different predicates by %s: the wake-up can go to a waiter "
                              "that cannot proceed while the one that can stays blocked (lost wake-up)" % (f.name, cls[1], sorted({s[0] for s in sites})))
        for fld in sorted(set().union(*kinds)):
            n += 1
            key = (fld, cls[1])
            why = exempt.get((fld[1], cls[1]))
            res.check(key in rows or why is not None, rule, "%s:covers:%s" % (cls[1], fld[1]), sites[0][0],
                      "writes of %s wake %s (must-signal row)" % (fld[1], cls[1]) if key in rows else "exempt: %s" % why,
                      "waiters of %s test %s, but no rule requires its writers to wake %s: a writer that makes the predicate true "
                      "(e.g. a resize raising a limit) leaves the waiter blocked" % (cls[1], fld[1], cls[1]))
    res.count(rule + ".wait-sites", sum(len(v) for v in preds.values()))
    return n
