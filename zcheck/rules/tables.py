"""T7 constant-table conformance: values are read from the AST (evaluated initialisers),
the reference is recomputed from doc/zstd_compression_format.md by the checker itself."""
import os
import re

from ..facts import REPO, Broken
from ..ir import walk, strip_casts, const_val


def ints(init):
    """flat list of ints of an array initialiser"""
    if init is None or init.get("k") != "init":
        raise Broken("constant table has no initialiser list")
    out = []
    for a in init["a"]:
        v = const_val(a)
        if v is None:
            raise Broken("non-constant cell in a constant table")
        out.append(v)
    return out


def rows(init):
    """list of tuples for an array of structs / 2-D array; function references become names"""
    out = []
    for a in init["a"]:
        a = strip_casts(a)
        if a.get("k") == "init":
            row = []
            for c in a["a"]:
                cc = strip_casts(c)
                if cc.get("k") == "ref" and cc.get("rk") == "f":
                    row.append(cc["n"])
                else:
                    v = const_val(c)
                    row.append(v)
            out.append(tuple(row))
        else:
            out.append((const_val(a),))
    return out


def local_static_table(f, name):
    for b, i, r in f.roots():
        if r.get("k") == "decl":
            for v in r["vars"]:
                if v["n"] == name or v["n"].split("#")[0] == name:
                    return v
    raise Broken("anchor table missing: %s in %s" % (name, f.name))


# ---- the format document -----------------------------------------------------------------------
def read_spec():
    p = os.path.join(REPO, "doc", "zstd_compression_format.md")
    if not os.path.exists(p):
        raise Broken("format document missing: doc/zstd_compression_format.md")
    with open(p) as fh:
        return fh.read()


def spec_code_table(text, code_label):
    """{code: (baseline, nbits)} from the markdown tables of a `..._Code` section"""
    out = {}
    lines = text.splitlines()
    for i, ln in enumerate(lines):
        if ln.startswith("| `%s`" % code_label):
            cells = [c.strip() for c in ln.strip().strip("|").split("|")][1:]
            j = i + 2
            base = bits = None
            while j < len(lines) and lines[j].startswith("|"):
                cc = [c.strip() for c in lines[j].strip().strip("|").split("|")]
                if cc[0] in ("`Baseline`",):
                    base = cc[1:]
                elif cc[0] == "`Number_of_Bits`":
                    bits = cc[1:]
                elif cc[0] in ("length", "value"):
                    base = cc[1:]
                j += 1
            if len(cells) == 1 and "-" in cells[0]:
                lo, hi = [int(x) for x in cells[0].split("-")]
                nb = int(bits[0])
                add = 3 if "+ 3" in base[0] else 0
                for c in range(lo, hi + 1):
                    out[c] = (c + add, nb)
            else:
                for c, bv, nb in zip(cells, base, bits):
                    out[int(c)] = (int(bv), int(nb))
    if not out:
        raise Broken("could not parse the %s tables of the format document" % code_label)
    return out


def spec_distribution(text, name):
    m = re.search(r"short\s+%s\[(\d+)\]\s*=\s*\{([^}]*)\}" % re.escape(name), text)
    if not m:
        raise Broken("default distribution %s not found in the format document" % name)
    vals = [int(x) for x in m.group(2).replace("\n", " ").split(",") if x.strip()]
    if len(vals) != int(m.group(1)):
        raise Broken("default distribution %s: declared length differs from its initialiser" % name)
    return vals


def fse_decoding_table(norm, accuracy_log):
    """the document's `From normalized distribution to decoding tables` construction.
    returns [(symbol, nbBits, baseline)] per state."""
    size = 1 << accuracy_log
    symbol_of = [None] * size
    high = size - 1
    for s, p in enumerate(norm):
        if p == -1:
            symbol_of[high] = s
            high -= 1
    pos = 0
    step = (size >> 1) + (size >> 3) + 3
    for s, p in enumerate(norm):
        if p <= 0:
            continue
        for _ in range(p):
            symbol_of[pos] = s
            pos = (pos + step) & (size - 1)
            while pos > high:
                pos = (pos + step) & (size - 1)
    if pos != 0 or any(x is None for x in symbol_of):
        raise Broken("spec construction did not fill the table: distribution is not normalised")
    out = [None] * size
    for s, p in enumerate(norm):
        if p == -1:
            for st in range(size):
                if symbol_of[st] == s and out[st] is None and st > high:
                    out[st] = (s, accuracy_log, 0)
            continue
        if p <= 0:
            continue
        states = [st for st in range(size) if symbol_of[st] == s and st <= high]
        states.sort()
        n = len(states)
        pw = 1
        while pw < n:
            pw <<= 1
        share_bits = accuracy_log - (pw.bit_length() - 1)      # bits for a single share
        ndouble = pw - n
        # widths: the `ndouble` lowest states get one more bit
        widths = [share_bits + 1 if k < ndouble else share_bits for k in range(n)]
        # baseline assigned starting from the lowest state using fewer bits, looping back
        order = list(range(ndouble, n)) + list(range(0, ndouble))
        base = 0
        for k in order:
            out[states[k]] = (s, widths[k], base)
            base += 1 << widths[k]
        if base != size:
            raise Broken("spec construction: shares of symbol %d do not cover the state space" % s)
    return out
