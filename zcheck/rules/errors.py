"""T4 error discipline.  The set E of error-returning functions is computed from the
definitions (fixpoint): size_t-returning functions some return path of which yields an
error constant or the result of a member of E.  Every call to a member of E inside the scope
must have its result (i) tested by an *_isError predicate before any other use, (ii)
returned, or (iii) stored into a frozen error-carrying field.  Anything else is a deviant:
dropped, used arithmetically first, handed to another function unchecked."""
from ..ir import walk, strip_casts, is_call, err_name

ISERR_SUFFIX = "isError"
ERR_SINKS = ("ZSTD_getErrorName", "ZSTD_getErrorCode", "ERR_getErrorCode", "ERR_getErrorName", "ZDICT_getErrorName",
             "ERR_getErrorString", "ZSTD_getErrorString", "FSE_getErrorName", "HUF_getErrorName")


def is_iserr(n):
    return n is not None and n.get("k") == "call" and (n.get("c") or "").endswith(ISERR_SUFFIX)


def compute_E(prog, extra_types=("size_t",)):
    """name -> reason, for functions that may return an error code."""
    E = {}
    fns = [f for f in prog.all_functions() if f.ret.replace("const ", "").strip() in extra_types]
    # direct: a return expression contains an error constant
    for f in fns:
        for b, i, r in f.returns():
            e = r.get("e")
            if e is not None and any(x.get("err") for x in walk(e)):
                E[f.name] = "returns ERROR(%s)" % next(err_name(x) for x in walk(e) if x.get("err"))
                break
    changed = True
    while changed:
        changed = False
        for f in fns:
            if f.name in E:
                continue
            for b, i, r in f.returns():
                e = strip_casts(r.get("e"))
                if e is None:
                    continue
                srcs = _value_sources(f, e, 2)
                hit = [c for c in srcs if c in E]
                if hit:
                    E[f.name] = "forwards " + hit[0]
                    changed = True
                    break
    return E


def _value_sources(f, e, depth):
    """callee names whose result may be the value of e (through ?: and locals)."""
    e = strip_casts(f.resolve_x(e))
    out = set()
    if e is None:
        return out
    k = e.get("k")
    if k == "call" and e.get("c"):
        out.add(e["c"])
    elif k == "cond":
        out |= _value_sources(f, e.get("t"), depth) | _value_sources(f, e.get("f"), depth)
    elif k == "ref" and e.get("rk") in ("l", "sl") and depth > 0:
        for d in f.local_defs().get(e["n"], []):
            if d is not None:
                out |= _value_sources(f, d, depth - 1)
    return out


def _parents(root):
    par = {}
    stack = [root]
    while stack:
        n = stack.pop()
        for key, v in n.items():
            if isinstance(v, dict):
                par[id(v)] = n
                stack.append(v)
            elif isinstance(v, list):
                for c in v:
                    if isinstance(c, dict):
                        par[id(c)] = n
                        stack.append(c)
                        if "init" in c and isinstance(c["init"], dict):
                            pass
    return par


def classify_call(f, b, i, root, call, fields_ok):
    classify_call.last_pos = (b, i)
    return _classify_call(f, b, i, root, call, fields_ok)


def _classify_call(f, b, i, root, call, fields_ok):
    """how is the result of `call` (inside root (b,i)) consumed?  returns (verdict, detail)
    verdict in checked / returned / stored-field / local:<name> / dropped / used:<how>"""
    par = _parents(root)
    cur = call
    hops = 0
    while True:
        p = par.get(id(cur))
        if p is None:
            # cur is a root.  If the CFG evaluates it here but consumes it in another block
            # (arm of ?: / operand of && ||), continue at the {"k":"x"} reference.
            target = cur.get("id")
            found = None
            if target is not None and hops < 4:
                for bb, ii, rr in f.roots():
                    if rr is root:
                        continue
                    for y in walk(rr):
                        if y.get("k") == "x" and y.get("id") == target:
                            found = (bb, ii, rr, y)
                            break
                    if found:
                        break
            if found is None:
                # the call is this block's branch condition: `if (f(...)) return ERROR(x);`
                br = f.branch(b)
                if br is not None and (br[0] is cur or strip_casts(br[0]) is cur):
                    if _edge_returns(f, br[1]):
                        return "checked", "non-zero result leads straight to a return"
                    return "used", "tested as a boolean only"
                return "dropped", "result ignored"
            b, i, root, cur = found
            par = _parents(root)
            hops += 1
            classify_call.last_pos = (b, i)
            continue
        k = p.get("k")
        if k is None and "init" in p and "n" in p:   # a variable entry of a decl
            return "local:" + p["n"], ""
        if k == "cast":
            if p.get("t") == "void":
                return "dropped", "cast to void"
            cur = p
            continue
        if k == "call":
            if is_iserr(p):
                return "checked", "argument of " + p["c"]
            if p.get("c") in ERR_SINKS:
                return "checked", "argument of " + p["c"]
            return "used", "passed unchecked to %s" % (p.get("c") or "an indirect call")
        if k == "ret":
            return "returned", ""
        if k == "cond":
            if p.get("c") is cur:
                return "used", "tested as a boolean"
            cur = p
            continue
        if k == "decl":
            for v in p.get("vars", []):
                if v.get("init") is cur:
                    return "local:" + v["n"], ""
            return "used", "decl"
        if k == "asg":
            if p.get("rhs") is cur and p.get("op") == "=":
                lhs = strip_casts(p["lhs"])
                if lhs.get("k") == "ref" and lhs.get("rk") in ("l", "sl"):
                    return "local:" + lhs["n"], ""
                if lhs.get("k") == "ref" and lhs.get("rk") == "p":
                    return "local:" + lhs["n"], ""
                if lhs.get("k") == "mem":
                    if lhs["f"] in fields_ok:
                        return "stored-field", lhs["f"]
                    return "used", "stored into field %s" % lhs["f"]
                if lhs.get("k") == "un" and lhs.get("op") == "*":
                    return "used", "stored through a pointer"
                return "used", "assigned to a non-local"
            return "used", "compound assignment %s" % p.get("op")
        if k == "bin" and p.get("op") in ("==", "!="):
            other = strip_casts(p["rhs"] if p.get("lhs") is cur else p["lhs"])
            if other is not None and other.get("v") == 0:
                return "checked", "compared with 0 (error codes are non-zero)"
        if k == "un" and p.get("op") == "!":
            return "checked", "tested against 0"
        if k == "bin":
            if p.get("op") == ",":
                if p.get("rhs") is cur:
                    cur = p
                    continue
                return "dropped", "left operand of comma"
            return "used", "operand of %s" % p.get("op")
        if k == "un":
            return "used", "operand of %s" % p.get("op")
        if k in ("idx", "mem", "init"):
            return "used", k
        return "used", k or "?"


def _zero_test(par, q, p):
    """q (the use, casts climbed) is tested against zero: root condition, !q, q==0, q!=0."""
    if p is None:
        return True     # the use is itself a root: a branch condition `if (v)`
    if p.get("k") == "un" and p.get("op") == "!":
        return True
    if p.get("k") == "bin" and p.get("op") in ("==", "!="):
        other = p["rhs"] if p.get("lhs") is q else p["lhs"]
        other = strip_casts(other)
        return other is not None and other.get("v") == 0
    if p.get("k") == "bin" and p.get("op") in ("&&", "||"):
        return True
    return False


def _edge_returns(f, blk):
    """does block `blk` (target of a branch edge) return without doing anything else
    (logging aside)?"""
    for rr in f.blocks[blk]["el"]:
        if rr.get("k") == "ret":
            return True
        if set(rr.get("m", [])) & {"DEBUGLOG", "RAWLOG", "DISPLAYLEVEL", "DISPLAY"}:
            continue
        if rr.get("k") in ("str", "int", "cast"):
            continue
        return False
    return False


def _zero_test_returns(f, bb, r, par, q, p):
    br = f.branch(bb)
    if br is None:
        return False
    cond, t, fl = br
    c = strip_casts(cond)
    node = q if p is None else p
    if c is not node and cond is not node:
        return False
    # which edge is the "v != 0" edge?
    nonzero_edge = t
    if p is not None:
        if p.get("k") == "un" and p.get("op") == "!":
            nonzero_edge = fl
        elif p.get("k") == "bin" and p.get("op") == "==":
            nonzero_edge = fl
        elif p.get("k") == "bin" and p.get("op") in ("&&", "||"):
            return False
    return _edge_returns(f, nonzero_edge)


def _bound_compare_returns(f, bb, ii, r, par, q, p, aliases):
    """use is `X < v` / `v > X` (or <=, >=) as this block's branch condition and the edge on
    which v is the larger side goes straight to `return v`."""
    if p is None or p.get("k") != "bin" or p.get("op") not in ("<", ">", "<=", ">="):
        return False
    br = f.branch(bb)
    if br is None:
        return False
    cond, t, fl = br
    if strip_casts(cond) is not p and cond is not p:
        return False
    v_left = p.get("lhs") is q
    v_big_on_true = (v_left and p["op"] in (">", ">=")) or ((not v_left) and p["op"] in ("<", "<="))
    edge = t if v_big_on_true else fl
    for rr in f.blocks[edge]["el"]:
        if rr.get("k") == "ret":
            e = strip_casts(rr.get("e"))
            return e is not None and e.get("k") == "ref" and e.get("n") in aliases
        # skip logging roots
    return False


def local_checked(f, b, i, name, idempotent_ok=True):
    """after root (b,i) defines local `name` with an error-capable value: every path to a
    use of the local other than isError(name)/return name passes an isError(name) branch
    (or the return).  returns (ok, detail)."""
    # copies: `size_t const err_code = (name);` (FORWARD_IF_ERROR / CHECK_F expansions)
    aliases = {name}
    for v, defs in f.local_defs().items():
        if len(defs) == 1 and defs[0] is not None:
            d = strip_casts(defs[0])
            if d is not None and d.get("k") == "ref" and d.get("n") == name:
                aliases.add(v)

    def uses_name(x):
        return x.get("k") == "ref" and x.get("n") in aliases and x.get("rk") in ("l", "sl", "p")

    checks, rets, others, redefs = [], [], [], []
    for bb, ii, r in f.roots():
        par = None
        has = [x for x in walk(r) if uses_name(x)]
        if not has:
            continue
        if (bb, ii) == (b, i):
            # the defining root: uses on the lhs only
            continue
        par = _parents(r)
        for u in has:
            p = par.get(id(u))
            # climb casts
            q = u
            while p is not None and p.get("k") == "cast" and p.get("t") != "void":
                q, p = p, par.get(id(p))
            if p is not None and p.get("k") is None and "init" in p and p.get("n") in aliases:
                continue   # the copy itself
            if p is not None and is_iserr(p):
                checks.append((bb, ii))
            elif p is not None and p.get("k") == "call" and p.get("c") in ERR_SINKS:
                checks.append((bb, ii))
            elif p is not None and p.get("k") == "ret":
                rets.append((bb, ii))
            elif p is not None and p.get("k") == "asg" and strip_casts(p.get("lhs")) is u:
                # re-definition: a barrier for the flow, but not a test of the value
                redefs.append((bb, ii))
            elif p is not None and p.get("k") == "cond" and par.get(id(p), {}).get("k") == "ret":
                rets.append((bb, ii))
            elif _zero_test(par, q, p):
                # `if (v) return ...;` / `if (v != 0) return 0;` is a test (error codes are
                # non-zero); any other zero test is neutral (neither a test nor a use)
                if _zero_test_returns(f, bb, r, par, q, p):
                    checks.append((bb, ii))
                continue
            elif _bound_compare_returns(f, bb, ii, r, par, q, p, aliases):
                checks.append((bb, ii))   # `if (limit < v) return v;` subsumes error codes
            else:
                macros = set(u.get("m", []))
                if macros & {"DEBUGLOG", "RAWLOG", "assert", "DISPLAYLEVEL", "DISPLAY"}:
                    continue
                others.append((bb, ii))
    start = [(b, i + 1)]
    reach_any = f.flow(start)
    checks_r = [c for c in checks if c in reach_any]
    rets_r = [c for c in rets if c in reach_any]
    others_r = [o for o in others if o in reach_any]
    if not checks_r and not rets_r:
        if not others_r:
            return False, "result stored in `%s` is never tested nor returned" % name
        return False, "result stored in `%s` is used without any %s test" % (name, ISERR_SUFFIX)
    if others_r:
        ok = f.must_pass(via_roots=checks_r + rets_r + redefs, starts=start, targets=others_r)
        if not ok:
            return False, "`%s` is used before it is tested with %s on some path" % (name, ISERR_SUFFIX)
    return True, "tested before use"


FREE_FUNCS = ("ZSTD_freeCCtx", "ZSTD_freeDCtx", "ZSTD_freeCStream", "ZSTD_freeDStream", "ZSTD_freeCDict",
              "ZSTD_freeDDict", "ZSTD_freeLegacyStreamContext", "ZSTDMT_freeCCtx", "ZSTD_freeCCtxParams",
              "ZSTD_seekable_free", "ZSTD_seekable_freeCStream", "ZSTD_seekTable_free", "ZSTD_seekable_freeFrameLog",
              "ZBUFF_freeCCtx", "ZBUFF_freeDCtx", "ZBUFFv05_freeDCtx", "ZBUFFv06_freeDCtx", "ZBUFFv07_freeDCtx",
              "ZSTDv05_freeDCtx", "ZSTDv06_freeDCtx", "ZSTDv07_freeDCtx", "ZSTDv07_freeDDict")


def error_discipline(prog, res, rule, scope_fns, E, exceptions, fields_ok=(), min_sites=0, skip_callees=FREE_FUNCS):
    """exceptions: {(caller, callee): reason}.  One instance per (caller, callee) pair."""
    n_sites = 0
    agg = {}
    for f in scope_fns:
        for b, i, r in f.roots():
            for x in walk(r):
                if x.get("k") != "call" or x.get("c") not in E or x.get("c") in skip_callees:
                    continue
                if {"assert", "DEBUGLOG", "RAWLOG"} & set(x.get("m", [])):
                    continue
                n_sites += 1
                verdict, detail = classify_call(f, b, i, r, x, fields_ok)
                ok = verdict in ("checked", "returned", "stored-field")
                if verdict.startswith("local:"):
                    pb, pi = classify_call.last_pos
                    ok, detail = local_checked(f, pb, pi, verdict[6:])
                elif not ok:
                    detail = "%s (%s)" % (verdict, detail)
                key = (f.name, x["c"])
                a = agg.setdefault(key, {"f": f, "n": 0, "bad": []})
                a["n"] += 1
                if not ok:
                    a["bad"].append("line %s: %s" % (x.get("l"), detail))
    used_exc = set()
    for (caller, callee), a in sorted(agg.items()):
        ikey = "%s->%s" % (caller, callee)
        if not a["bad"]:
            res.ok(rule, ikey, a["f"].loc, "%d call site(s), result tested/propagated" % a["n"])
            continue
        why = exceptions.get((caller, callee))
        if why:
            used_exc.add((caller, callee))
            res.ok(rule, ikey, a["f"].loc, "frozen exception: " + why)
            continue
        res.bad(rule, ikey, a["f"].loc,
                "result of %s (may be an error code: %s) is not tested before use: %s"
                % (callee, E[callee], "; ".join(a["bad"][:3])))
    res.count(rule + ".call_sites", n_sites)
    if min_sites:
        res.need(rule, min_sites)
    return n_sites, used_exc
