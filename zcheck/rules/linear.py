"""Linear forms over the expression IR: an expression built from +, -, multiplication by a constant, casts and
single-definition locals is flattened into {symbol: coefficient, 1: constant}.  Symbols are canonical strings of the
non-linear leaves (parameters by position, fields by access path, calls by callee and argument shapes)."""
from ..ir import strip_casts, const_val, access_path


def _sym(f, n):
    k = n.get("k")
    if k == "ref":
        if n.get("rk") == "p":
            return "p%d" % n.get("pi", -1)
        return "%s:%s" % (n.get("rk"), n.get("n"))
    if k == "mem":
        try:
            return "path:" + ".".join(str(x[1]) for x in access_path(n))
        except Exception:
            return "f:" + n.get("f", "?")
    if k == "call":
        return "call:%s(%s)" % (n.get("c"), ",".join(sorted(fmt(linear(f, a)) for a in n.get("a", []))))
    return "%s#%s" % (k, n.get("id"))


def fmt(lin):
    if lin is None:
        return "?"
    return "+".join("%s*%s" % (v, k) for k, v in sorted(lin.items(), key=lambda kv: str(kv[0])) if v)


def linear(f, n, depth=0, follow=True):
    """dict symbol->coefficient (key 1 holds the constant), or None when n is not available"""
    n = strip_casts(f.resolve_x(n)) if n is not None else None
    if n is None:
        return None
    v = const_val(n)
    if v is not None:
        return {1: v}
    k = n.get("k")
    if k == "paren":
        return linear(f, n.get("e"), depth, follow)
    if k == "bin" and n.get("op") in ("+", "-"):
        a, b = linear(f, n["lhs"], depth, follow), linear(f, n["rhs"], depth, follow)
        if a is None or b is None:
            return None
        out = dict(a)
        sg = 1 if n["op"] == "+" else -1
        for s, c in b.items():
            out[s] = out.get(s, 0) + sg * c
        return out
    if k == "bin" and n.get("op") == "*":
        a, b = linear(f, n["lhs"], depth, follow), linear(f, n["rhs"], depth, follow)
        for x, y in ((a, b), (b, a)):
            if x is not None and y is not None and set(x) <= {1}:
                return {s: c * x.get(1, 0) for s, c in y.items()}
        return {_sym(f, n): 1}
    if k == "ref" and n.get("rk") in ("l", "sl") and follow and depth < 4:
        d = f.single_def(n["n"])
        if d is not None:
            r = linear(f, d, depth + 1, follow)
            if r is not None:
                return r
    return {_sym(f, n): 1}


def macro_value(prog_or_f, name, fns):
    """value of an integer macro as clang expanded it somewhere in the given functions (nodes carry the macro names they come from)"""
    from ..ir import walk
    for f in fns:
        for _, _, r in f.roots():
            for x in walk(r):
                if x.get("k") == "int" and name in (x.get("m") or []) and "v" in x:
                    return x["v"]
    return None
