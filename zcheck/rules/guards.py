"""Guards: branches one edge of which can only lead to an error return.  T3 edge cuts, T8
capacity guards and T9 sibling agreement are all phrased over them.

A guard is described semantically: error code(s) returned on the failing side, the
relational operator of the *failing* condition, and the global-name anchors (fields,
callees, params by index, constants by value) of each operand after expanding locals
through their definitions.  Never by local-variable name, line or text."""
from ..ir import walk, strip_casts, err_name, REL_FLIP, REL_NEG, is_call
from .reset import ret_is_error

REL = ("<", ">", "<=", ">=", "==", "!=")


def _is_failure_return(f, b, i, r):
    """NULL for pointer-returning functions, error code for size_t ones."""
    if ret_is_error(f, b, i, r):
        return True
    e = strip_casts(r.get("e"))
    if e is None:
        return False
    if "*" in f.ret and e.get("v") == 0:
        return True
    return False


def success_blocks(f, extra_failure=None):
    """blocks containing a return that is not an error return (or, for void functions,
    the exit's predecessors)."""
    out = set()
    has_ret = False
    for b, i, r in f.returns():
        has_ret = True
        bad = _is_failure_return(f, b, i, r) or (extra_failure is not None and extra_failure(f, b, i, r))
        if not bad:
            out.add(b)
    if f.ret == "void":
        for p in f.preds().get(f.exit, []):
            if not f.blocks[p].get("noret"):
                out.add(p)
    return out


def can_reach(f, targets):
    """set of blocks from which some block in targets is reachable (reverse BFS)."""
    preds = f.preds()
    seen = set(targets)
    todo = list(targets)
    while todo:
        b = todo.pop()
        for p in preds.get(b, []):
            if p not in seen:
                seen.add(p)
                todo.append(p)
    return seen


def error_codes_from(f, blk):
    codes = set()
    for b in f.reachable([blk]):
        for r in f.blocks[b]["el"]:
            if r.get("k") == "ret" and r.get("e") is not None:
                for x in walk(r["e"]):
                    if x.get("err"):
                        codes.add(err_name(x))
                e = strip_casts(r["e"])
                if e is not None and e.get("k") == "ref" and not codes:
                    codes.add("<forwarded>")
                if e is not None and e.get("v") == 0 and "*" in f.ret:
                    codes.add("<NULL>")
        if f.blocks[b].get("noret"):
            codes.add("<noreturn>")
    return codes


class GuardSite:
    __slots__ = ("f", "bid", "cond", "fail", "ok", "codes", "op", "L", "R", "sL", "sR", "shL", "shR", "line", "neg")

    def describe(self):
        return "%s %s %s -> %s" % (sorted(self.L), self.op, sorted(self.R), sorted(self.codes))


def guard_sites(f, extra_failure=None, _depth=0):
    """all branches of f with exactly one error-only edge."""
    sb = success_blocks(f, extra_failure)
    good = can_reach(f, sb)
    out = []
    for bid, cond, t, fl in f.branches():
        t_bad = t is not None and t not in good
        f_bad = fl is not None and fl not in good
        if t_bad == f_bad:
            continue
        g = GuardSite()
        g.f, g.bid = f, bid
        g.fail, g.ok = (t, fl) if t_bad else (fl, t)
        c = strip_casts(f.resolve_x(cond))
        neg = not t_bad       # failing condition is the negation of cond when the false edge fails
        while c is not None and c.get("k") == "un" and c.get("op") == "!":
            c = strip_casts(f.resolve_x(c["e"]))
            neg = not neg
        g.cond, g.neg = c, neg
        g.line = (c or {}).get("l") or f.blocks[bid].get("tl")
        g.codes = error_codes_from(f, g.fail)
        if c is not None and c.get("k") == "bin" and c.get("op") in REL:
            op = c["op"]
            if neg:
                op = REL_NEG[op]
            g.op = op
            g.L = f.anchors(c["lhs"])
            g.R = f.anchors(c["rhs"])
            g.sL = f.sig_anchors(c["lhs"])
            g.sR = f.sig_anchors(c["rhs"])
            g.shL = f.shape(c["lhs"])
            g.shR = f.shape(c["rhs"])
        elif c is not None and c.get("k") == "call":
            g.op = ("!" if neg else "") + "call:" + (c.get("c") or "?")
            g.L = set().union(*[f.anchors(a) for a in c.get("a", [])]) if c.get("a") else set()
            g.R = set()
            g.sL = set().union(*[f.sig_anchors(a) for a in c.get("a", [])]) if c.get("a") else set()
            g.sR = set()
            g.shL = f.shape(c)
            g.shR = ""
        else:
            g.op = "zero" if neg else "nonzero"
            g.L = f.anchors(c) if c is not None else set()
            g.R = set()
            g.sL = f.sig_anchors(c) if c is not None else set()
            g.sR = set()
            g.shL = f.shape(c) if c is not None else "?"
            g.shR = ""
        out.append(g)
    if _depth == 0:
        out += _helper_guards(f, out, extra_failure)
    return out


def _helper_guards(f, own, extra_failure):
    """guards that live in a static helper of the same file whose result f checks (FORWARD_IF_ERROR(helper(...))): each is
    re-stated at the caller's checking branch (the caller's edge, the helper's error code / operator / operand anchors), so
    that a test moved into a helper is still seen by per-function rules.  Parameters of the helper are not mapped back."""
    prog = getattr(f, "prog", None)
    if prog is None:
        return []
    extra = []
    for g in own:
        if g.cond is None:
            continue
        callees = {y.get("c") for y in f.walk_resolved(g.cond) if y.get("k") == "call" and y.get("c")} | {a[2:] for a in (g.L | g.R) if a.startswith("c:")}
        for cn in callees:
            if cn.endswith("isError"):
                continue
            cands = [x for x in prog.functions.get(cn, []) if x.file == f.file and x.static and x is not f]
            if len(cands) != 1:
                continue
            h = cands[0]
            for hg in guard_sites(h, extra_failure, _depth=1):
                ng = GuardSite()
                ng.f, ng.bid, ng.cond, ng.fail, ng.ok, ng.line, ng.neg = f, g.bid, hg.cond, g.fail, g.ok, g.line, hg.neg
                ng.codes = set(hg.codes) - {"<forwarded>"} or set(g.codes)
                ng.op, ng.L, ng.R, ng.sL, ng.sR, ng.shL, ng.shR = hg.op, hg.L, hg.R, hg.sL, hg.sR, hg.shL, hg.shR
                extra.append(ng)
    return extra


class Want:
    """description of a required guard.  code: error name or set of names or None (any);
    op: operator of the failing condition (after normalising orientation so that `lhs`
    anchors are on the left) or a set of acceptable operators; lhs/rhs: anchor subsets."""

    def __init__(self, code=None, op=None, lhs=(), rhs=(), note=""):
        self.code = {code} if isinstance(code, str) else (set(code) if code else None)
        self.op = {op} if isinstance(op, str) else (set(op) if op else None)
        self.lhs = set(lhs)
        self.rhs = set(rhs)
        self.note = note

    def matches(self, g):
        if self.code is not None and not (self.code & g.codes):
            return False
        if g.op in REL:
            if self.lhs <= g.L and self.rhs <= g.R and (self.op is None or g.op in self.op):
                return True
            if self.lhs <= g.R and self.rhs <= g.L and (self.op is None or REL_FLIP[g.op] in self.op):
                return True
            return False
        if self.op is not None and g.op not in self.op:
            return False
        return (self.lhs | self.rhs) <= (g.L | g.R)

    def __repr__(self):
        return "guard(%s %s %s -> %s)" % (sorted(self.lhs), "/".join(sorted(self.op)) if self.op else "?",
                                            sorted(self.rhs), "/".join(sorted(self.code)) if self.code else "error")


def find(f, want, sites=None, extra_failure=None):
    sites = sites if sites is not None else guard_sites(f, extra_failure)
    return [g for g in sites if want.matches(g)]


def success_nodes(f, extra_failure=None):
    out = []
    for b, i, r in f.returns():
        if not (_is_failure_return(f, b, i, r) or (extra_failure is not None and extra_failure(f, b, i, r))):
            out.append((b, i))
    if f.ret == "void":
        out.append(f.exit_node())
    return out


def require(f, res, rule, key, want, protects="success", alt_edges=(), alt_roots=(), sites=None, starts=None,
            extra_failure=None, why=""):
    """the guard exists and every path (from entry or `starts`) to the protected nodes
    takes its passing edge — or one of alt_edges / executes one of alt_roots (legitimate
    ways around: the feature is absent, an equivalent check elsewhere)."""
    gs = find(f, want, sites, extra_failure)
    if protects == "success":
        targets = success_nodes(f, extra_failure)
    elif isinstance(protects, str):
        targets = f.call_roots(protects)
    elif isinstance(protects, tuple) and protects and isinstance(protects[0], str):
        targets = f.call_roots(protects)
    else:
        targets = list(protects)
    where = "%s:%s" % (f.file, gs[0].line if gs else f.line)
    if not gs:
        res.bad(rule, key, f.loc, "required check missing in %s: %r %s" % (f.name, want, why))
        return None
    if not targets:
        res.bad(rule, key, f.loc, "nothing left to protect in %s (sink/success return not found) for %r" % (f.name, want))
        return None
    alt_roots = list(alt_roots)
    targets = [t for t in targets if t not in alt_roots]   # a delegating `return other(...)` is its own way out
    edges = {(g.bid, g.ok) for g in gs} | set(alt_edges)
    ok = f.must_pass(via_edges=edges, via_roots=alt_roots, starts=starts, targets=targets)
    res.check(ok, rule, key, where,
              "%r cuts every path to %s" % (want, protects if isinstance(protects, (str, tuple)) else "the sink"),
              "%s: a path reaches %s without passing %r %s" % (
                  f.name, protects if isinstance(protects, (str, tuple)) else "the protected sink", want, why))
    return gs


def cond_edges(f, pred, which):
    """edges (bid, succ) of branches whose (resolved, !-stripped) condition satisfies pred;
    which = 'true' / 'false' refers to the truth of the stripped condition."""
    out = []
    for bid, cond, t, fl in f.branches():
        c = strip_casts(f.resolve_x(cond))
        neg = False
        while c is not None and c.get("k") == "un" and c.get("op") == "!":
            c = strip_casts(f.resolve_x(c["e"]))
            neg = not neg
        if c is None or not pred(c):
            continue
        tt, ff = (fl, t) if neg else (t, fl)
        out.append((bid, tt if which == "true" else ff))
    return out


def mentions(names=(), fields=(), calls=(), consts=()):
    """predicate over a condition node: mentions all of the given things."""
    def p(c):
        fs = {x["f"] for x in walk(c) if x.get("k") == "mem"}
        cs = {x.get("c") for x in walk(c) if x.get("k") == "call"}
        vs = {x.get("v") for x in walk(c) if "v" in x}
        es = {x.get("n") for x in walk(c) if x.get("k") == "ref"}
        return set(fields) <= fs and set(calls) <= cs and set(consts) <= vs and set(names) <= es
    return p


NOISE_CALLS = {"__builtin_expect", "ERR_isError", "ZSTD_isError", "HUF_isError", "FSE_isError", "_force_has_format_string",
               "ZSTD_DCtx_get_bmi2", "ZSTD_cpuSupportsBmi2", "MEM_32bits", "MEM_64bits", "MEM_isLittleEndian"}


# ---- frozen guard inventories ------------------------------------------------------------------
def inventory_of(f, codes=None, skip_forwarded=True, extra_failure=None):
    """today's guards of f as inventory entries (used by tools/inventory.py to propose the
    frozen table; the table itself is reviewed and committed)."""
    sites = guard_sites(f, extra_failure)
    succ = success_nodes(f, extra_failure)
    callroots = {}
    for b, i, n in f.calls():
        if n.get("c"):
            callroots.setdefault(n["c"], []).append((b, i))
    groups = {}
    for g in sites:
        cs = {c for c in g.codes if not c.startswith("<")}
        if skip_forwarded and not cs:
            continue
        if codes is not None and not (cs & set(codes)):
            continue
        key = (tuple(sorted(cs)), g.op, tuple(sorted(g.sL)), tuple(sorted(g.sR)), g.shL, g.shR)
        groups.setdefault(key, []).append(g)
    out = []
    for (cs, op, L, R, shL, shR), gs in sorted(groups.items()):
        edges = {(g.bid, g.ok) for g in gs}
        dom_succ = bool(succ) and f.must_pass(via_edges=edges, targets=succ)
        dom_calls = sorted(c for c, roots in callroots.items()
                           if not c.endswith("isError") and c not in NOISE_CALLS and not c.startswith("__builtin_")
                           and f.must_pass(via_edges=edges, targets=roots))
        out.append({"fn": f.name, "codes": list(cs), "op": op, "L": list(L), "R": list(R), "shape": [shL, shR],
                    "success": dom_succ, "calls": dom_calls, "sites": len(gs)})
    return out



def _zero_failure(f, b, i, r):
    """entropy coders report `does not fit / not compressible` by returning 0"""
    e = strip_casts(r.get("e"))
    return e is not None and e.get("v") == 0


def check_inventory(prog, res, rule, entries, extra_failure=None):
    """every frozen guard still exists (same error code, operator, anchors) and still
    dominates what it dominated: the function's success returns and/or its calls to the
    listed callees."""
    by_fn = {}
    for e in entries:
        by_fn.setdefault(e["fn"], []).append(e)
    for fname, es in sorted(by_fn.items()):
        f = prog.fn(fname, es[0].get("file"))
        cache = {}
        for e in es:
            xf = _zero_failure if e.get("zero_is_failure") else extra_failure
            if id(xf) not in cache:
                cache[id(xf)] = (guard_sites(f, xf), success_nodes(f, xf))
            sites, succ = cache[id(xf)]
            want = Want(e["codes"] or None, e["op"], e["L"], e["R"])
            gs = []
            sh = e.get("shape")
            eop, eL, eR, esh = _canon_zero(e["op"], set(e["L"]), set(e["R"]), sh)
            for g in sites:
                if e["codes"] and not (set(e["codes"]) & g.codes):
                    continue
                gop, gL, gR, gsh = _canon_zero(g.op, g.sL, g.sR, [g.shL, g.shR])
                straight = gop == eop and eL <= gL and eR <= gR and (esh is None or gsh == esh)
                swapped = gop in REL and eop in REL and REL_FLIP[gop] == eop and \
                    eL <= gR and eR <= gL and (esh is None or [gsh[1], gsh[0]] == esh)
                if straight or swapped:
                    gs.append(g)
            key = "%s: %s %s %s -> %s" % (fname, (sh or [_fmt(e["L"])])[0], e["op"], (sh or ["", _fmt(e["R"])])[1], "/".join(e["codes"]))
            if not gs:
                moved = _moved_to_helper(prog, f, e, xf, succ)
                if moved:
                    res.ok(rule, key, f.loc, "the same test now lives in %s, which %s calls on every path the test used to cut" % (moved, fname))
                    continue
                res.bad(rule, key, f.loc, "check removed or weakened in %s: the test `%s %s %s` with error exit %s is gone "
                        "(operator, operand structure and operand anchors are the frozen signature)"
                        % (fname, (sh or ["?"])[0], e["op"], (sh or ["", "?"])[1], "/".join(e["codes"])))
                continue
            edges = {(g.bid, g.ok) for g in gs}
            problems = []
            if e.get("success") and succ and not f.must_pass(via_edges=edges, targets=succ):
                problems.append("a successful return is reachable without passing it")
            for c in e.get("calls", []):
                roots = f.call_roots(c)
                if roots and not f.must_pass(via_edges=edges, targets=roots):
                    problems.append("%s() is reachable without passing it" % c)
            res.check(not problems, rule, key, "%s:%s" % (f.file, gs[0].line), "present; still dominates %s%s" % (
                "success " if e.get("success") else "", ",".join(e.get("calls", [])[:4])), "; ".join(problems))


_VAR = None


def _vshape(sh):
    """shape with locals and parameters made indistinguishable: what a test looks like after it has been moved into a helper
    whose parameters are the caller's locals"""
    import re
    return [re.sub(r"\bp\d+\b|\bl\b", "v", x) for x in sh]


def _moved_to_helper(prog, f, e, xf, succ):
    """a frozen guard that is no longer in f: is there, in a function f calls (two levels), a guard with the same error
    code, operator and operand structure (locals/parameters abstracted), whose call site in f still cuts what the guard cut?"""
    sh = e.get("shape")
    if sh is None or not e.get("codes"):
        return None
    want = _vshape(sh)
    seen, level = set(), [f]
    for depth in range(2):
        nxt = []
        for g in level:
            for cn in g.callees():
                if cn in seen:
                    continue
                seen.add(cn)
                hc = [x for x in prog.functions.get(cn, []) if x.file.startswith(f.file.rsplit("/", 1)[0])]
                if len(hc) != 1:
                    continue
                h = hc[0]
                nxt.append(h)
                for gs in guard_sites(h, xf):
                    if not (set(e["codes"]) & gs.codes):
                        continue
                    cand = _vshape([gs.shL, gs.shR])
                    same = (gs.op == e["op"] and cand == want) or (gs.op in REL and e["op"] in REL and REL_FLIP[gs.op] == e["op"] and [cand[1], cand[0]] == want)
                    if not same:
                        # operands that were locals expanded in the caller are plain parameters in the helper: compare what is
                        # left once parameters are ignored (constants, fields, callees, macros) - it must be non-empty
                        np = lambda a: {x for x in a if not x.startswith("p:")}
                        eL, eR, gL, gR = np(set(e["L"])), np(set(e["R"])), np(gs.sL), np(gs.sR)
                        if eL | eR:
                            same = (gs.op == e["op"] and eL == gL and eR == gR) or \
                                (gs.op in REL and e["op"] in REL and REL_FLIP[gs.op] == e["op"] and eL == gR and eR == gL)
                    if not same:
                        continue
                    roots = f.call_roots(cn) if depth == 0 else [r for c2 in level for r in f.call_roots(c2.name)]
                    if not roots:
                        continue
                    ok = True
                    if e.get("success") and succ:
                        ok = f.must_pass(via_roots=roots, targets=[t for t in succ if t not in roots])
                    for c in e.get("calls", []):
                        rr = f.call_roots(c)
                        if rr and c != cn and not f.must_pass(via_roots=roots, targets=rr):
                            ok = False
                    if ok:
                        return cn
        level = nxt
    return None


def _canon_zero(op, L, R, sh):
    """`x == 0` / `0 == x` is the same test as `!x`, `x != 0` the same as `x`: one canonical form
    (zero / nonzero over the non-constant side), so that spelling a NULL test out is not a change"""
    if op in ("==", "!=") and sh is not None:
        for const_side, other in ((1, 0), (0, 1)):
            if sh[const_side] == "0":
                anc = (L, R)[other] | {a for a in (L, R)[const_side] if not a.startswith("k:")}
                return ("zero" if op == "==" else "nonzero"), {a for a in anc if a != "k:0"}, set(), [sh[other], ""]
    if op in ("zero", "nonzero"):
        return op, {a for a in (L | R) if a != "k:0"}, set(), ([sh[0], ""] if sh is not None else None)
    return op, L, R, sh


def _fmt(a):
    return "{" + ",".join(x for x in sorted(a)) + "}"


def rel_edges(f, pa, op, pb, truth=True):
    """edges on which the relation `A op B` is `truth`, for every branch whose condition states that relation in any
    spelling: `A op B`, `B flip(op) A`, the negated operator on the other edge, or under `!`.  pa / pb are predicates
    over the (cast-stripped, x-resolved) operand nodes."""
    out = []
    for bid, cond, t, fl in f.branches():
        c = strip_casts(f.resolve_x(cond))
        neg = False
        while c is not None and c.get("k") == "un" and c.get("op") == "!":
            c = strip_casts(f.resolve_x(c["e"]))
            neg = not neg
        if c is None or c.get("k") != "bin" or c.get("op") not in REL:
            continue
        l, r = strip_casts(f.resolve_x(c["lhs"])), strip_casts(f.resolve_x(c["rhs"]))
        cop = c["op"]
        for a, b, o in ((l, r, cop), (r, l, REL_FLIP[cop])):
            if a is None or b is None or not (pa(a) and pb(b)):
                continue
            if o == op:
                holds_on_true = True
            elif o == REL_NEG[op]:
                holds_on_true = False
            else:
                continue
            if neg:
                holds_on_true = not holds_on_true
            want_true_edge = holds_on_true == truth
            out.append((bid, t if want_true_edge else fl))
            break
    return out


def counted_loop_exits(f, gs):
    """exit edges of constant-trip-count loops (`for (u = 0; u < K; u++)`, K a positive constant) every iteration of
    which passes one of the guards gs: taking such an exit edge means the guard was passed K >= 1 times, although the CFG,
    path-insensitively, also lets the loop exit before its first iteration."""
    out = []
    from ..ir import const_val as _cv
    for bid, cond, t, fl in f.branches():
        c = strip_casts(f.resolve_x(cond))
        if c is None or c.get("k") != "bin" or c.get("op") != "<" or not isinstance(_cv(c["rhs"]), int) or _cv(c["rhs"]) < 1:
            continue
        v = strip_casts(c["lhs"])
        if v.get("k") != "ref" or v.get("rk") not in ("l", "sl"):
            continue
        defs = f.local_defs().get(v["n"], [])
        consts = [d for d in defs if d is not None]
        if not consts or any(_cv(d) != 0 for d in consts) or len(defs) != len(consts) + 1:
            continue            # not `v = 0` plus exactly one increment
        if bid not in f.reachable([t]):
            continue            # the true edge does not come back: not a loop
        if f.must_pass(via_edges=[(g.bid, g.ok) for g in gs] + [(g.bid, g.fail) for g in gs], starts=[(t, 0)], targets=[(bid, 0)]):
            out.append((bid, fl))
    return out


def truthy_edges(f, pred, truth=True):
    """edges on which the (cast-stripped) operand satisfying `pred` is non-zero (truth=True) or zero (truth=False), however
    the test is spelled: `x`, `!x`, `x != 0`, `x == 0`, `0 != x`, `x == NULL`."""
    from ..ir import const_val as _cv
    out = list(cond_edges(f, lambda c: c.get("k") != "bin" and pred(c), "true" if truth else "false"))
    zero = lambda b: _cv(strip_casts(b)) == 0
    out += rel_edges(f, lambda a: pred(strip_casts(a)) if a is not None else False, "!=", zero, truth=truth)
    return out
