"""Front end: compile database from /repo's own build, parallel extraction with zsx,
loading and de-duplication of the per-TU fact files.  Nothing here runs zstd code."""
import glob
import json
import os
import shutil
import subprocess
import tempfile
from concurrent.futures import ThreadPoolExecutor

VERIF = os.path.dirname(os.path.dirname(os.path.abspath(__file__)))
REPO = os.environ.get("ZSTD_REPO", "/repo")
ZSX = os.path.join(VERIF, "tools", "zsx", "zsx")

REFERENCE_DEFINES = ["-DXXH_NAMESPACE=ZSTD_", "-DDEBUGLEVEL=0", "-DZSTD_LEGACY_SUPPORT=5",
                     "-DZSTD_MULTITHREAD"]
DROPPED = ("-DZSTD_GZ", "-DZSTD_LZMA", "-DZSTD_LZ4", "-DBACKTRACE")


class Broken(Exception):
    """analysis-broken: an anchor is missing, a unit does not parse, an instance count
    fell below what was confirmed by hand.  Exit status 2, never a pass or a violation."""


def build_defines():
    """-D flags of the shipped CLI build (what `make check` tests), read from the
    repository's own Makefiles on every run."""
    # programs/Makefile probes the toolchain by compiling scratch files inside programs/ (have_pthread.c ...): two
    # `make -n` running at once in the same tree disturb each other and one of them loses -DZSTD_MULTITHREAD.  All
    # invocations are therefore serialised on a lock file, and a result is only trusted when two runs in a row agree.
    import fcntl
    lock = open(os.path.join(tempfile.gettempdir(), ".zcheck-make-n.lock"), "w")
    fcntl.flock(lock, fcntl.LOCK_EX)
    try:
        prev = None
        defs = []
        for attempt in range(4):
            try:
                out = subprocess.run(["make", "-n", "-B", "-C", os.path.join(REPO, "programs"), "zstd"],
                                     capture_output=True, text=True, timeout=60).stdout
            except Exception:
                return list(REFERENCE_DEFINES), "fallback(make -n failed)"
            defs = []
            for line in out.splitlines():
                if " -c " in line and "zstd_compress.c" in line:
                    for tok in line.split():
                        if tok.startswith("-D") and not tok.startswith(DROPPED) and tok not in defs:
                            defs.append(tok)
                    break
            if defs and defs == prev:
                break
            prev = defs
    finally:
        fcntl.flock(lock, fcntl.LOCK_UN)
        lock.close()
    if not defs:
        return list(REFERENCE_DEFINES), "fallback(no compile line)"
    src = "make -n -B -C programs zstd"
    extra = os.environ.get("ZCHECK_CONFIG", "").split()
    for e in extra:
        # thorough tier: a further build configuration; -DNAME=v replaces the shipped value, -UNAME drops it
        name = e[2:].split("=")[0]
        defs = [d for d in defs if d[2:].split("=")[0] != name]
        if e.startswith("-D"):
            defs.append(e)
    if extra:
        src += " + configuration " + " ".join(extra)
    return defs, src


def _inc(*dirs):
    return ["-I" + os.path.join(REPO, d) for d in dirs]


LIB_INC = _inc("lib", "lib/common", "lib/compress", "lib/decompress", "lib/dictBuilder", "lib/legacy")

GROUPS = {
    "common": ("lib/common/*.c", LIB_INC),
    "compress": ("lib/compress/*.c", LIB_INC),
    "decompress": ("lib/decompress/*.c", LIB_INC),
    "dictBuilder": ("lib/dictBuilder/*.c", LIB_INC),
    "legacy": ("lib/legacy/zstd_v0[567].c", LIB_INC),
    "legacy_all": ("lib/legacy/zstd_v0[1234].c", LIB_INC),
    "deprecated": ("lib/deprecated/*.c", LIB_INC),
    "programs": ("programs/{fileio,fileio_asyncio,zstdcli,util}.c", LIB_INC + _inc("programs")),
    "seekable": ("contrib/seekable_format/*.c", LIB_INC + _inc("contrib/seekable_format")),
}


def expand(pattern):
    if "{" in pattern:
        pre, rest = pattern.split("{", 1)
        alts, post = rest.split("}", 1)
        out = []
        for a in alts.split(","):
            out += glob.glob(os.path.join(REPO, pre + a + post))
        return sorted(out)
    return sorted(glob.glob(os.path.join(REPO, pattern)))


def units(groups):
    res = []
    for g in groups:
        pat, inc = GROUPS[g]
        files = expand(pat)
        if not files:
            raise Broken("no source files for group %s (%s)" % (g, pat))
        for f in files:
            res.append((f, inc))
    return res


def _extract_one(args):
    src, flags, out = args
    cmd = [ZSX, out, REPO, src, "--"] + flags
    p = subprocess.run(cmd, capture_output=True, text=True)
    return src, p.returncode, p.stderr[-2000:]


def extract(groups, extra_defines=None, defines=None, jobs=16):
    """Run zsx over every unit of the groups; returns (list of TU dicts, info)."""
    if not os.path.exists(ZSX):
        raise Broken("extractor not built: run MANIFEST.setup_cmd (make -C /verif/tools/zsx)")
    if defines is None:
        defines, src = build_defines()
    else:
        src = "explicit"
    defines = list(defines) + list(extra_defines or [])
    us = units(groups)
    tmp = tempfile.mkdtemp(prefix="zsx-", dir=os.environ.get("ZSX_TMP", None))
    try:
        work = []
        for i, (f, inc) in enumerate(us):
            flags = ["-std=gnu99"] + defines + inc
            work.append((f, flags, os.path.join(tmp, "%d.json" % i)))
        with ThreadPoolExecutor(max_workers=jobs) as ex:
            results = list(ex.map(_extract_one, work))
        tus = []
        for (f, flags, out), (src_, rc, err) in zip(work, results):
            if rc != 0 or not os.path.exists(out):
                raise Broken("unit does not parse: %s\n%s" % (f, err))
            with open(out) as fh:
                tu = json.load(fh)
            if tu.get("errors"):
                raise Broken("unit has parse errors: %s\n%s" % (f, err))
            tus.append(tu)
    finally:
        shutil.rmtree(tmp, ignore_errors=True)
    info = {"defines": defines, "defines_source": src, "units": [os.path.relpath(f, REPO) for f, _ in us]}
    return tus, info
