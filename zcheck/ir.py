"""Program representation over the zsx facts: functions, CFG points, expression helpers,
reachability with cut edges, dominance, anchors.  All analyses are over the type-checked
AST/CFG that clang built from /repo's current sources."""
from collections import defaultdict, deque

from .facts import Broken

REL_FLIP = {"<": ">", ">": "<", "<=": ">=", ">=": "<=", "==": "==", "!=": "!="}
REL_NEG = {"<": ">=", ">": "<=", "<=": ">", ">=": "<", "==": "!=", "!=": "=="}

NOISE_MACROS = {"RETURN_ERROR_IF", "RETURN_ERROR", "FORWARD_IF_ERROR", "RAWLOG", "DEBUGLOG", "MIN", "MAX",
                "_FORCE_HAS_FORMAT_STRING", "CHECK_F", "CHECK_V_F", "assert", "ERROR", "NULL", "BOUNDCHECK",
                "CLAMPCHECK", "CHECK_IO", "CHECK_Z", "ZSTD_STATIC_ASSERT", "DISPLAYLEVEL", "DISPLAY", "EXM_THROW",
                "BOUNDED", "XXH_CAT", "XXH_NAME2", "A", "B", "ZSTD_QUOTE", "ZSTD_EXPAND_AND_QUOTE", "PREFIX",
                "ZSTD_memcpy", "ZSTD_memmove", "ZSTD_memset", "MEM_STATIC", "FORCE_INLINE_TEMPLATE", "CHECK",
                "JOB_ERROR", "ZSTD_PTHREAD_MUTEX_LOCK", "LIKELY", "UNLIKELY", "ZSTD_UNREACHABLE", "isError"}
CHILD_KEYS = ("b", "i", "fn", "lhs", "rhs", "e", "c", "t", "f", "init")


def children(n):
    """sub-expressions of a node in evaluation order (approximate C order)."""
    k = n.get("k")
    if k == "call":
        out = []
        if n.get("fn") is not None:
            out.append(n["fn"])
        out.extend(n.get("a", []))
        return out
    if k == "init":
        return list(n.get("a", []))
    if k == "decl":
        return [v["init"] for v in n.get("vars", []) if v.get("init") is not None]
    if k in ("bin", "asg"):
        return [n["lhs"], n["rhs"]] if k == "bin" else [n["rhs"], n["lhs"]]
    if k == "cond":
        return [x for x in (n.get("c"), n.get("t"), n.get("f")) if isinstance(x, dict)]
    if k == "mem":
        return [n["b"]]
    if k == "idx":
        return [n["b"], n["i"]]
    if k == "ret":
        return [n["e"]] if n.get("e") is not None else []
    if "ch" in n:
        return [c for c in n["ch"] if c is not None]
    out = []
    for key in ("e", "c", "f"):
        v = n.get(key)
        if isinstance(v, dict):
            out.append(v)
    return out


def walk(n):
    """post-order walk (operands before operators): evaluation order of events."""
    if n is None:
        return
    stack = [(n, False)]
    while stack:
        node, done = stack.pop()
        if done:
            yield node
            continue
        stack.append((node, True))
        for c in reversed(children(node)):
            if c is not None:
                stack.append((c, False))


def strip_casts(n):
    while n is not None and n.get("k") == "cast":
        n = n["e"]
    return n


def is_call(n, names=None):
    if n is None or n.get("k") != "call":
        return False
    if names is None:
        return True
    if isinstance(names, str):
        return n.get("c") == names
    return n.get("c") in names


def calls_in(n, names=None):
    return [x for x in walk(n) if is_call(x, names)]


def const_val(n):
    n0 = n
    n = strip_casts(n)
    if n0 is not None and "v" in n0:
        return n0["v"]
    if n is not None and "v" in n:
        return n["v"]
    return None


def err_name(n):
    """'corruption_detected' if n is (size_t)-ZSTD_error_corruption_detected, else None."""
    n = strip_casts(n)
    if n is None:
        return None
    if n.get("k") == "un" and n.get("err"):
        e = n["err"]
        for pre in ("ZSTD_error_", "ZSTDv05_error_", "ZSTDv06_error_", "ZSTDv07_error_"):
            if e.startswith(pre):
                return e[len(pre):]
        return e
    return None


def access_path(n):
    """canonical access path of an lvalue/rvalue expression, or None.
    ('p',i) / ('l',name) / ('g',name) root followed by ('.',rec,field) ('[]',) ('*',)"""
    n = strip_casts(n)
    if n is None:
        return None
    k = n.get("k")
    if k == "ref":
        rk = n.get("rk")
        if rk == "p":
            return (("p", n["pi"], n["n"]),)
        if rk in ("l", "sl"):
            return (("l", n["n"]),)
        if rk == "g":
            return (("g", n["n"]),)
        if rk == "f":
            return (("f", n["n"]),)
        return None
    if k == "mem":
        b = access_path(n["b"])
        if b is None:
            return None
        if n.get("arrow"):
            b = b + (("*",),)
        return b + ((".", n.get("rec", "?"), n["f"]),)
    if k == "idx":
        b = access_path(n["b"])
        if b is None:
            return None
        return b + (("[]",),)
    if k == "un" and n.get("op") == "*":
        b = access_path(n["e"])
        if b is None:
            return None
        return b + (("*",),)
    if k == "un" and n.get("op") == "&":
        b = access_path(n["e"])
        if b is None:
            return None
        return b + (("&",),)
    return None


def fields_of(n):
    """set of (rec, field) mentioned anywhere in n"""
    return {(x.get("rec", "?"), x["f"]) for x in walk(n) if x.get("k") == "mem"}


def field_names(n):
    return {x["f"] for x in walk(n) if x.get("k") == "mem"}


def refs_of(n, kinds=None):
    return {(x["rk"], x["n"]) for x in walk(n) if x.get("k") == "ref" and (kinds is None or x["rk"] in kinds)}


def macros_of(n):
    out = set()
    for x in walk(n):
        for m in x.get("m", ()):
            out.add(m)
    return out


class Function:
    def __init__(self, rec, tu):
        self.rec = rec
        self.tu = tu
        self.name = rec["name"]
        self.file = rec["file"]
        self.line = rec["line"]
        self.static = rec.get("static", False)
        self.params = rec.get("params", [])
        self.ret = rec.get("ret", "")
        self.blocks = {b["id"]: b for b in rec.get("blocks", [])}
        self.entry = rec.get("entry")
        self.exit = rec.get("exit")
        self._nodes = None
        self._pred = None
        self._localdefs = None
        self._inline_lvalues()

    def _inline_lvalues(self):
        """`a->f = c ? x : y` evaluates the lvalue in an earlier block; the assignment node then
        only holds an {"k":"x"} reference as its lhs.  Put the (call-free) lvalue expression
        back so that rules matching `lhs` see the field that is written."""
        todo = []
        for bid, i, r in self.roots():
            for n in walk(r):
                if n.get("k") == "asg" and isinstance(n.get("lhs"), dict) and n["lhs"].get("k") == "x":
                    todo.append(n)
        for n in todo:
            tgt = self.resolve_x(n["lhs"])
            if tgt is None or tgt.get("k") not in ("mem", "idx", "ref", "un", "cast"):
                continue
            if any(y.get("k") in ("call", "asg", "x") for y in walk(tgt)):
                continue
            n["lhs"] = tgt

    def __repr__(self):
        return "<fn %s %s:%d>" % (self.name, self.file, self.line)

    @property
    def loc(self):
        return "%s:%d" % (self.file, self.line)

    # ---- element access -------------------------------------------------------------
    def roots(self):
        """yield (block_id, index, root_node) over all blocks"""
        for bid, b in self.blocks.items():
            for i, r in enumerate(b["el"]):
                yield bid, i, r

    def events(self, pred=None):
        """yield (block_id, index, node) for every sub-expression in evaluation order"""
        for bid, i, r in self.roots():
            for n in walk(r):
                if pred is None or pred(n):
                    yield bid, i, n

    def calls(self, names=None):
        return [(b, i, n) for b, i, n in self.events(lambda x: is_call(x, names))]

    def callees(self):
        return {n["c"] for _, _, n in self.events(lambda x: x.get("k") == "call") if n.get("c")}

    def node_by_id(self, nid):
        if self._nodes is None:
            self._nodes = {}
            for bid, i, r in self.roots():
                for n in walk(r):
                    if "id" in n:
                        self._nodes[n["id"]] = (bid, i, n)
        return self._nodes.get(nid)

    def resolve_x(self, n):
        """follow {"k":"x"} references to the node evaluated in another block"""
        seen = 0
        while n is not None and n.get("k") == "x" and seen < 8:
            hit = self.node_by_id(n["id"])
            if hit is None:
                return n
            n = hit[2]
            seen += 1
        return n

    def walk_resolved(self, n, _depth=0):
        """walk(n), following {"k":"x"} references into the sub-expression they stand for"""
        for y in walk(n):
            if y.get("k") == "x" and _depth < 6:
                r = self.resolve_x(y)
                if r is not None and r is not y and r.get("k") != "x":
                    for z in self.walk_resolved(r, _depth + 1):
                        yield z
                    continue
            yield y

    def walk_deep(self, n, _depth=0, _seen=None):
        """walk_resolved(n), additionally following locals that have exactly one definition into that definition"""
        _seen = set() if _seen is None else _seen
        for y in self.walk_resolved(n):
            yield y
            if y.get("k") == "ref" and y.get("rk") in ("l", "sl") and _depth < 4 and y["n"] not in _seen:
                d = self.single_def(y["n"])
                if d is not None:
                    _seen.add(y["n"])
                    for z in self.walk_deep(d, _depth + 1, _seen):
                        yield z

    # ---- CFG ------------------------------------------------------------------------
    def succs(self, bid):
        return [s for s in self.blocks[bid]["succ"] if s is not None]

    def preds(self):
        if self._pred is None:
            self._pred = defaultdict(list)
            for bid, b in self.blocks.items():
                for s in b["succ"]:
                    if s is not None:
                        self._pred[s].append(bid)
        return self._pred

    def branch(self, bid):
        """(cond_node, true_succ, false_succ) for a two-way branch block, else None.
        cond_node is the leaf condition actually tested in this block."""
        b = self.blocks[bid]
        if b.get("term") in (None, "switch", "goto", "igoto", "break", "continue") or len(b["succ"]) != 2:
            return None
        if b["succ"][0] is None or b["succ"][1] is None:
            return None     # constant condition (do{}while(0), if(0)): the dead edge was pruned
        cid = b.get("cond")
        cond = None
        if cid is not None:
            for r in reversed(b["el"]):
                if r.get("id") == cid:
                    cond = r
                    break
            if cond is None:
                hit = self.node_by_id(cid)
                if hit is not None and hit[0] == bid:
                    cond = hit[2]
        if cond is None and b["el"]:
            cond = b["el"][-1]
        if cond is None:
            return None
        return cond, b["succ"][0], b["succ"][1]

    # ---- finite-domain evaluation -----------------------------------------------------
    def eval_expr(self, n, env):
        """value of an integer expression over constants and the parameters named in env
        ({param index: value}); None when anything else is involved"""
        n = self.resolve_x(n) if n is not None else None
        if n is None:
            return None
        k = n.get("k")
        if k == "cast":
            return self.eval_expr(n["e"], env)
        if k == "ref":
            if n.get("rk") == "p" and n.get("pi") in env:
                return env[n["pi"]]
            if n.get("rk") == "e" and "v" in n:
                return n["v"]
            return None
        if "v" in n and k in ("int", "sizeof"):
            return n["v"]
        if k == "un":
            v = self.eval_expr(n["e"], env)
            if v is None:
                return None
            return {"!": int(not v), "-": -v, "~": ~v, "+": v}.get(n.get("op"))
        if k == "bin":
            op = n["op"]
            a = self.eval_expr(n["lhs"], env)
            if op == "&&":
                if a is not None and not a:
                    return 0
                b = self.eval_expr(n["rhs"], env)
                return None if a is None or b is None else int(bool(a) and bool(b))
            if op == "||":
                if a:
                    return 1
                b = self.eval_expr(n["rhs"], env)
                return None if a is None or b is None else int(bool(a) or bool(b))
            b = self.eval_expr(n["rhs"], env)
            if a is None or b is None:
                return n.get("v")
            try:
                return {"==": int(a == b), "!=": int(a != b), "<": int(a < b), "<=": int(a <= b), ">": int(a > b), ">=": int(a >= b),
                        "+": a + b, "-": a - b, "*": a * b, "&": a & b, "|": a | b, "^": a ^ b, "<<": a << b, ">>": a >> b}.get(op)
            except Exception:
                return None
        if k == "cond":
            c = self.eval_expr(n.get("c"), env)
            if c is None:
                return None
            return self.eval_expr(n.get("t") if c else n.get("f"), env)
        if "v" in n:
            return n["v"]
        return None

    def eval_pure(self, env, max_steps=400):
        """return value of a side-effect-free function for the given parameter values, obtained by
        walking the CFG and folding conditions (if / switch / && / || / ?:); None if a condition
        or the returned expression depends on anything but parameters and constants"""
        bid = self.entry
        steps = 0
        known = {}          # node id -> value (short-circuit operands evaluated in earlier blocks)
        while bid is not None and steps < max_steps:
            steps += 1
            blk = self.blocks[bid]
            for r in blk["el"]:
                if r.get("k") == "ret":
                    return self.eval_expr(r.get("e"), env)
            succ = blk["succ"]
            term = blk.get("term")
            if term == "switch" or (blk.get("cond") is not None and len([x for x in succ if x is not None]) > 2):
                node = self.node_by_id(blk["cond"])
                v = self.eval_expr(node[2] if node else None, env)
                if v is None:
                    return None
                nxt = dflt = None
                for s2 in succ:
                    if s2 is None:
                        continue
                    lab = self.blocks[s2].get("label") or {}
                    if lab.get("k") == "case" and (lab.get("v") == v or ("v2" in lab and lab["v"] <= v <= lab["v2"])):
                        nxt = s2
                    elif lab.get("k") == "default":
                        dflt = s2
                if nxt is None and dflt is None:
                    others = [s2 for s2 in succ if s2 is not None and not (self.blocks[s2].get("label") or {}).get("k") == "case"]
                    dflt = others[0] if others else None
                bid = nxt if nxt is not None else dflt
                continue
            live = [x for x in succ]
            if blk.get("cond") is not None and len(live) == 2:
                node = self.node_by_id(blk["cond"])
                v = self.eval_expr(node[2] if node else None, env)
                if v is None:
                    return None
                bid = live[0] if v else live[1]
                continue
            nxt = [x for x in succ if x is not None]
            bid = nxt[0] if nxt else None
        return None

    def branches(self):
        for bid in self.blocks:
            br = self.branch(bid)
            if br is not None:
                yield bid, br[0], br[1], br[2]

    def reachable(self, start_blocks, cut_edges=(), cut_blocks=(), start_after=None):
        """set of blocks reachable from start blocks, never traversing cut edges
        (pairs (from,to)) nor entering cut blocks."""
        cut_edges = set(cut_edges)
        cut_blocks = set(cut_blocks)
        seen = set()
        dq = deque(b for b in start_blocks if b not in cut_blocks)
        seen.update(dq)
        while dq:
            b = dq.popleft()
            for s in self.succs(b):
                if (b, s) in cut_edges or s in cut_blocks or s in seen:
                    continue
                seen.add(s)
                dq.append(s)
        return seen

    # ---- point graph: node (b,i) = "about to execute root i of block b" ------------
    def flow(self, starts, cut_roots=(), cut_edges=(), cut_blocks=()):
        """nodes reachable from the start nodes; executing a root in cut_roots, taking a
        CFG edge in cut_edges or entering a block in cut_blocks is forbidden.
        (b, len(el)) is the end of block b; the start 'after root (b,i)' is (b,i+1)."""
        cut_roots = set(cut_roots)
        cut_edges = set(cut_edges)
        cut_blocks = set(cut_blocks)
        seen = set()
        dq = deque()
        for n in starts:
            if n not in seen and n[0] not in cut_blocks:
                seen.add(n)
                dq.append(n)
        while dq:
            b, i = dq.popleft()
            nel = len(self.blocks[b]["el"])
            if i < nel:
                if (b, i) in cut_roots:
                    continue
                nxt = [(b, i + 1)]
            else:
                nxt = [(s, 0) for s in self.succs(b) if (b, s) not in cut_edges and s not in cut_blocks]
            for n in nxt:
                if n not in seen:
                    seen.add(n)
                    dq.append(n)
        return seen

    def entry_node(self):
        return (self.entry, 0)

    def exit_node(self):
        return (self.exit, 0)

    def find_roots(self, pred):
        """[(b,i)] of roots containing a node satisfying pred"""
        out = []
        for b, i, r in self.roots():
            if any(pred(x) for x in walk(r)):
                out.append((b, i))
        return out

    def call_roots(self, names):
        return self.find_roots(lambda x: is_call(x, names))

    def must_pass(self, via_roots=(), via_edges=(), starts=None, targets=None):
        """True iff every path from starts (default entry) to targets (default exit)
        executes a root in via_roots or takes an edge in via_edges."""
        starts = starts if starts is not None else [self.entry_node()]
        targets = targets if targets is not None else [self.exit_node()]
        reach = self.flow(starts, cut_roots=via_roots, cut_edges=via_edges)
        return not any(t in reach for t in targets)

    def known_flag_edges(self, start):
        """infeasible branch edges, given that execution is at `start`: for a local flag
        tested as `if (flag)` / `if (!flag)`, when exactly one constant assignment of the flag
        lies on every path to `start` and no assignment is reachable from `start`, the
        flag's value is known and the other edge cannot be taken.  (Path sensitivity for the
        repo's `closeDstFile = 1; ... if (closeDstFile)` idiom.)"""
        out = set()
        reach = self.flow([start])
        for bid, cond, t, fl in self.branches():
            c = strip_casts(self.resolve_x(cond))
            neg = False
            while c is not None and c.get("k") == "un" and c.get("op") == "!":
                c = strip_casts(c["e"])
                neg = not neg
            if c is None or c.get("k") != "ref" or c.get("rk") not in ("l", "sl"):
                continue
            name = c["n"]
            asg = []
            for b, i, r in self.roots():
                for x in walk(r):
                    if x.get("k") == "asg" and strip_casts(x["lhs"]).get("k") == "ref" and strip_casts(x["lhs"]).get("n") == name:
                        asg.append((b, i, x))
            if any((b, i) in reach for b, i, x in asg):
                continue
            dom = [(b, i, x) for b, i, x in asg if x.get("op") == "=" and const_val(x["rhs"]) is not None
                   and self.must_pass(via_roots=[(b, i)], targets=[start])]
            if len(dom) != 1:
                continue
            val = const_val(dom[0][2]["rhs"])
            truth = (val != 0) != neg
            out.add((bid, fl if truth else t))
        return out

    def reaches_exit_blocks(self):
        return self.preds().get(self.exit, [])

    def returns(self):
        """[(block, index, ret_node)]"""
        return [(b, i, r) for b, i, r in self.roots() if r.get("k") == "ret"]

    # ---- locals ---------------------------------------------------------------------
    def local_defs(self):
        """name -> list of defining expression nodes (initialisers and assigned values;
        None for ++/--/compound)."""
        if self._localdefs is None:
            d = defaultdict(list)
            for bid, i, r in self.roots():
                for n in walk(r):
                    k = n.get("k")
                    if k == "decl":
                        for v in n.get("vars", []):
                            if v.get("init") is not None:
                                d[v["n"]].append(v.get("init"))
                            else:
                                d.setdefault(v["n"], d[v["n"]])   # declared without a value: not a definition
                    elif k == "asg":
                        lhs = strip_casts(n["lhs"])
                        if lhs.get("k") == "ref" and lhs.get("rk") in ("l", "sl"):
                            d[lhs["n"]].append(n["rhs"] if n["op"] == "=" else None)
                    elif k == "un" and n.get("op", "").endswith(("++", "--")):
                        e = strip_casts(n["e"])
                        if e.get("k") == "ref" and e.get("rk") in ("l", "sl"):
                            d[e["n"]].append(None)
            self._localdefs = d
        return self._localdefs

    def single_def(self, name):
        defs = self.local_defs().get(name, [])
        if len(defs) == 1 and defs[0] is not None:
            return defs[0]
        return None

    def expand_local_path(self, path, depth=4):
        """replace a leading local root by the access path of its single definition
        (jobPtr = &mtctx->jobs[i]  =>  mtctx->jobs[])."""
        while depth > 0 and path and path[0][0] == "l":
            init = self.single_def(path[0][1])
            if init is None:
                # all defs agree on path?
                defs = [x for x in self.local_defs().get(path[0][1], []) if x is not None]
                paths = {access_path(x) for x in defs}
                if len(paths) != 1 or None in paths or len(defs) != len(self.local_defs().get(path[0][1], [])):
                    break
                ip = paths.pop()
            else:
                ip = access_path(init)
            if ip is None:
                break
            rest = path[1:]
            # &x followed by * cancels
            if ip and ip[-1] == ("&",) and rest and rest[0] == ("*",):
                ip = ip[:-1]
                rest = rest[1:]
            path = ip + rest
            depth -= 1
        return path

    # ---- anchors --------------------------------------------------------------------
    def sig_anchors(self, n, depth=2):
        """anchors for frozen guard signatures: names (fields, callees, params, macros, enum
        constants, globals) through local expansion, but integer constants only when they
        appear directly in the expression (incidental constants inside the definitions of
        locals would make the signature depend on how a value is computed)."""
        full = self.anchors(n, depth)
        return {a for a in full if not a.startswith("k:")} | self._shape_consts(n, depth)

    def _shape_consts(self, n, depth):
        """constants by value met when an expression is expanded the way `shape` expands it
        (through single-definition locals only), so that hoisting `x + 12` into a local of its
        own does not change the signature"""
        out = set()
        n = self.resolve_x(n) if n is not None else None
        if n is None:
            return out
        for x in walk(n):
            k = x.get("k")
            if k == "x":
                y = self.resolve_x(x)
                if y is not x and y.get("k") != "x":
                    out |= self._shape_consts(y, depth)
            elif k == "sizeof" and x.get("of") and isinstance(x.get("v"), int) and x["v"] > 64:
                out.add("s:%s" % x["of"])
            elif k in ("int", "sizeof") and "v" in x:
                out.add("k:%d" % x["v"])
            elif k in ("bin", "cond", "un", "cast") and "v" in x and not x.get("err"):
                out.add("k:%d" % x["v"])
            elif k == "ref" and x.get("rk") in ("l", "sl"):
                d = self.single_def(x["n"])
                if d is not None and (depth > 0 or const_val(d) is not None):
                    out |= self._shape_consts(d, depth - 1)
        return out

    def shape(self, n, depth=2):
        """canonical structure of an expression: operators kept, commutative operands sorted,
        casts dropped, single-definition locals expanded, other locals abstracted to `l`,
        constants to their value, fields/callees/params by global name.  No local name, no
        line number: two spellings of the same test have the same shape."""
        n = strip_casts(self.resolve_x(n)) if n is not None else None
        if n is None:
            return "?"
        k = n.get("k")
        if k == "sizeof" and n.get("of") and isinstance(n.get("v"), int) and n["v"] > 64:
            return "sizeof(%s)" % n["of"]        # the size of an object type changes with every field added to it: kept symbolic
        if "v" in n and k in ("int", "bin", "un", "cond", "sizeof", "cast"):
            return str(n["v"])
        if k == "ref":
            rk = n.get("rk")
            if rk == "p":
                return "p%d" % n["pi"]
            if rk in ("l", "sl"):
                d = self.single_def(n["n"])
                if d is not None and (depth > 0 or const_val(d) is not None):     # a named constant is always expanded
                    return self.shape(d, depth - 1)
                return "l"
            if rk == "e":
                return str(n.get("v"))
            return rk + ":" + n["n"]
        if k == "mem":
            return self.shape(n["b"], depth) + "." + n["f"]
        if k == "idx":
            return self.shape(n["b"], depth) + "[" + self.shape(n["i"], depth) + "]"
        if k == "call":
            return (n.get("c") or "indirect") + "(" + ",".join(self.shape(a, depth) for a in n.get("a", [])) + ")"
        if k == "bin":
            a, b = self.shape(n["lhs"], depth), self.shape(n["rhs"], depth)
            if n["op"] in ("+", "*", "&", "|", "^", "==", "!=", "&&", "||"):
                a, b = sorted((a, b))
            return "(" + a + n["op"] + b + ")"
        if k == "un":
            return n.get("op", "?") + self.shape(n["e"], depth)
        if k == "cond":
            # canonical ternary: condition normalised to one of ==, <, <= (operands / arms swapped as needed), `!c` unwrapped,
            # so that `a != b ? x : y`, `!(a == b) ? x : y` and `a == b ? y : x` have one shape
            c = strip_casts(self.resolve_x(n.get("c"))) if n.get("c") is not None else None
            t, f = n.get("t"), n.get("f")
            while c is not None and c.get("k") == "un" and c.get("op") == "!" and "v" not in c:
                c = strip_casts(self.resolve_x(c["e"]))
                t, f = f, t
            if c is not None and c.get("k") == "bin" and "v" not in c and c.get("op") in ("!=", ">=", ">", "<", "<=", "=="):
                op, l, r = c["op"], c["lhs"], c["rhs"]
                if op == "!=":
                    op, t, f = "==", f, t
                elif op == ">=":            # a >= b ? t : f  ==  a < b ? f : t
                    op, t, f = "<", f, t
                elif op == ">":             # a > b ? t : f   ==  b < a ? t : f
                    op, l, r = "<", r, l
                if op == "<=":              # a <= b ? t : f  ==  b < a ? f : t
                    op, l, r, t, f = "<", r, l, f, t
                a, b = self.shape(l, depth), self.shape(r, depth)
                if op == "==":
                    a, b = sorted((a, b))
                cs = "(" + a + op + b + ")"
            else:
                cs = self.shape(c, depth) if c is not None else "?"
            return "(" + cs + "?" + self.shape(t, depth) + ":" + self.shape(f, depth) + ")"
        if k == "sizeof":
            return "sizeof"
        return k or "?"

    def anchors(self, n, depth=2, _seen=None):
        """global-name anchors of an expression: fields, callees, params (by index),
        constants by value, globals, enum constants; locals are expanded through all their
        definitions (flow-insensitive), depth-limited.  Never contains a local's name."""
        out = set()
        if n is None:
            return out
        if _seen is None:
            _seen = set()
        for x in walk(n):
            k = x.get("k")
            if k == "x":
                y = self.resolve_x(x)
                if y is not x and y.get("k") != "x":
                    out |= self.anchors(y, depth, _seen)
                continue
            if k == "mem":
                out.add("f:" + x["f"])
            elif k == "call":
                if x.get("c"):
                    out.add("c:" + x["c"])
            elif k == "ref":
                rk = x.get("rk")
                if rk == "p":
                    out.add("p:%d" % x["pi"])
                elif rk == "g":
                    out.add("g:" + x["n"])
                elif rk == "e":
                    out.add("e:" + x["n"])
                elif rk in ("l", "sl"):
                    if depth > 0 and x["n"] not in _seen:
                        _seen.add(x["n"])
                        for d in self.local_defs().get(x["n"], []):
                            if d is not None:
                                out |= self.anchors(d, depth - 1, _seen)
            elif k == "int" or k == "sizeof":
                if k == "sizeof" and x.get("of") and isinstance(x.get("v"), int) and x["v"] > 64:
                    out.add("s:%s" % x["of"])
                elif "v" in x:
                    out.add("k:%d" % x["v"])
            if k in ("bin", "cond", "un", "cast") and "v" in x and not x.get("err"):
                out.add("k:%d" % x["v"])
            if x.get("err"):
                out.add("err:" + err_name(x))
            for m in x.get("m", ()):
                if m not in NOISE_MACROS:
                    out.add("m:" + m)
        return out


class Program:
    def __init__(self, tus):
        self.tus = tus
        self.functions = defaultdict(list)  # name -> [Function]
        self.enums = {}
        self.records = {}
        self.globals = defaultdict(list)
        seen = set()
        for tu in tus:
            for f in tu.get("functions", []):
                key = (f["file"], f["line"], f["name"])
                if key in seen:
                    continue
                seen.add(key)
                self.functions[f["name"]].append(Function(f, tu["tu"]))
            for e in tu.get("enums", []):
                self.enums.setdefault((e["name"], e["file"], e["line"]), e)
            for r in tu.get("records", []):
                self.records.setdefault(r["name"], r)
            for g in tu.get("globals", []):
                key = ("g", g["file"], g["line"], g["name"])
                if key in seen:
                    continue
                seen.add(key)
                self.globals[g["name"]].append(g)
        self._callers = None
        for lst in self.functions.values():
            for f in lst:
                f.prog = self           # lets per-function rules look one call deep (guards moved into a helper)

    def all_functions(self):
        for lst in self.functions.values():
            for f in lst:
                yield f

    def fn(self, name, file=None):
        lst = self.functions.get(name, [])
        if file is not None:
            lst = [f for f in lst if f.file.endswith(file)]
        if not lst:
            raise Broken("anchor function missing: %s%s" % (name, " in " + file if file else ""))
        if len(lst) > 1:
            raise Broken("anchor function ambiguous: %s (%s)" % (name, ", ".join(f.loc for f in lst)))
        return lst[0]

    def has_fn(self, name):
        return bool(self.functions.get(name))

    def fns_in(self, *file_suffixes):
        return [f for f in self.all_functions() if f.file.endswith(tuple(file_suffixes))]

    def enum(self, name):
        for (n, _, _), e in self.enums.items():
            if n == name:
                return e
        raise Broken("anchor enum missing: %s" % name)

    def enum_const(self, cname):
        for e in self.enums.values():
            for n, v in e["items"]:
                if n == cname:
                    return v
        raise Broken("anchor enum constant missing: %s" % cname)

    def record(self, name):
        r = self.records.get(name)
        if r is None:
            raise Broken("anchor record missing: %s" % name)
        return r

    def field(self, rec, fname):
        for f in self.record(rec)["fields"]:
            if f["n"] == fname:
                return f
        raise Broken("anchor field missing: %s.%s" % (rec, fname))

    def glob(self, name, file=None):
        lst = self.globals.get(name, [])
        if file:
            lst = [g for g in lst if g["file"].endswith(file)]
        if not lst:
            raise Broken("anchor global missing: %s" % name)
        return lst[0]

    def callers(self):
        """callee name -> set of (caller Function)"""
        if self._callers is None:
            self._callers = defaultdict(list)
            for f in self.all_functions():
                for c in f.callees():
                    self._callers[c].append(f)
        return self._callers

    def address_taken(self):
        """function names referenced other than as a direct callee"""
        out = defaultdict(list)
        for f in self.all_functions():
            for b, i, n in f.events(lambda x: x.get("k") == "ref" and x.get("rk") == "f"):
                out[n["n"]].append(f)
        for gl in self.globals.values():
            for g in gl:
                for n in walk(g.get("init")):
                    if n.get("k") == "ref" and n.get("rk") == "f":
                        out[n["n"]].append(g)
        return out
